//! E3b `lspsim` — C17 at the language-server layer.
//!
//! The real `cajun::Cajun` backend, the real tower-lsp `LspService` + `Server` (codec,
//! router, `buffer_unordered(4)` dispatch), tokio's `Mutex`/`RwLock`/`oneshot`, the real
//! session and the real salsa run inside one shuttle execution.  The simulator owns
//!   * the transport: `stdin`/`stdout` of the server are an in-memory script reader and a
//!     frame collector (short reads and writes at seeded byte counts, bursts released when
//!     the server has answered the previous one),
//!   * the blocking pool: hook H3 hands every `spawn_blocking` job to a shuttle thread,
//!   * the schedule (shuttle) and the hash keys (entropy seam).
//! Nothing of cajun is mirrored here.

use crate::workload::SchedulerChoice;
use std::collections::{BTreeMap, VecDeque};
use std::path::{Path, PathBuf};
use std::pin::Pin;
use std::sync::{Arc, Mutex as StdMutex};
use std::task::{Context, Poll, Waker};
use zysim_common::{Rng, Value, json, mix};

/// The three documents of a script; `lex.zy` is used by the reference only.
pub const DOCS: [&str; 4] = ["root.zy", "a.zy", "b.zy", "lex.zy"];

#[derive(Clone, Debug, PartialEq)]
pub enum Msg {
    Open { doc: usize, version: i64, text: String },
    Change { doc: usize, version: i64, text: String },
    Save { doc: usize, text: Option<String> },
    Close { doc: usize },
    Hover { doc: usize, character: u32 },
    Definition { doc: usize, character: u32 },
    Symbols { doc: usize },
    Tokens { doc: usize },
    References { doc: usize, character: u32, declaration: bool },
    Formatting { doc: usize },
}

impl Msg {
    pub fn doc(&self) -> usize {
        match self {
            | Msg::Open { doc, .. }
            | Msg::Change { doc, .. }
            | Msg::Save { doc, .. }
            | Msg::Close { doc }
            | Msg::Hover { doc, .. }
            | Msg::Definition { doc, .. }
            | Msg::Symbols { doc }
            | Msg::Tokens { doc }
            | Msg::References { doc, .. }
            | Msg::Formatting { doc } => *doc,
        }
    }
    pub fn is_request(&self) -> bool {
        matches!(
            self,
            Msg::Hover { .. }
                | Msg::Definition { .. }
                | Msg::Symbols { .. }
                | Msg::Tokens { .. }
                | Msg::References { .. }
                | Msg::Formatting { .. }
        )
    }
    pub fn label(&self) -> String {
        match self {
            | Msg::Open { doc, version, text } => format!("open {} v{version} `{text}`", DOCS[*doc]),
            | Msg::Change { doc, version, text } => format!("change {} v{version} `{text}`", DOCS[*doc]),
            | Msg::Save { doc, text: Some(text) } => format!("save {} `{text}`", DOCS[*doc]),
            | Msg::Save { doc, text: None } => format!("save {}", DOCS[*doc]),
            | Msg::Close { doc } => format!("close {}", DOCS[*doc]),
            | Msg::Hover { doc, character } => format!("hover {}:{character}", DOCS[*doc]),
            | Msg::Definition { doc, character } => format!("definition {}:{character}", DOCS[*doc]),
            | Msg::Symbols { doc } => format!("symbols {}", DOCS[*doc]),
            | Msg::Tokens { doc } => format!("tokens {}", DOCS[*doc]),
            | Msg::References { doc, character, declaration } => {
                format!("references {}:{character}{}", DOCS[*doc], if *declaration { "+decl" } else { "" })
            }
            | Msg::Formatting { doc } => format!("formatting {}", DOCS[*doc]),
        }
    }
    pub fn to_json(&self) -> Value {
        match self {
            | Msg::Open { doc, version, text } => json!({"m": "open", "doc": doc, "version": version, "text": text}),
            | Msg::Change { doc, version, text } => json!({"m": "change", "doc": doc, "version": version, "text": text}),
            | Msg::Save { doc, text } => json!({"m": "save", "doc": doc, "text": text}),
            | Msg::Close { doc } => json!({"m": "close", "doc": doc}),
            | Msg::Hover { doc, character } => json!({"m": "hover", "doc": doc, "character": character}),
            | Msg::Definition { doc, character } => json!({"m": "definition", "doc": doc, "character": character}),
            | Msg::Symbols { doc } => json!({"m": "symbols", "doc": doc}),
            | Msg::Tokens { doc } => json!({"m": "tokens", "doc": doc}),
            | Msg::References { doc, character, declaration } => {
                json!({"m": "references", "doc": doc, "character": character, "declaration": declaration})
            }
            | Msg::Formatting { doc } => json!({"m": "formatting", "doc": doc}),
        }
    }
    pub fn from_json(value: &Value) -> Option<Self> {
        let doc = value["doc"].as_u64()? as usize;
        Some(match value["m"].as_str()? {
            | "open" => Msg::Open { doc, version: value["version"].as_i64()?, text: value["text"].as_str()?.to_string() },
            | "change" => Msg::Change { doc, version: value["version"].as_i64()?, text: value["text"].as_str()?.to_string() },
            | "save" => Msg::Save { doc, text: value["text"].as_str().map(str::to_string) },
            | "close" => Msg::Close { doc },
            | "hover" => Msg::Hover { doc, character: value["character"].as_u64()? as u32 },
            | "definition" => Msg::Definition { doc, character: value["character"].as_u64()? as u32 },
            | "symbols" => Msg::Symbols { doc },
            | "tokens" => Msg::Tokens { doc },
            | "references" => Msg::References {
                doc,
                character: value["character"].as_u64()? as u32,
                declaration: value["declaration"].as_bool().unwrap_or(false),
            },
            | "formatting" => Msg::Formatting { doc },
            | _ => return None,
        })
    }
}

#[derive(Clone, Debug)]
pub struct LspWorkload {
    pub disk: Vec<String>,
    pub bursts: Vec<Vec<Msg>>,
    pub io_seed: u64,
    pub short_io: bool,
    /// how often (of 256) a tokio lock acquisition of cajun yields first (tokio's cooperative budget)
    pub coop: u32,
    pub scheduler: SchedulerChoice,
}

impl LspWorkload {
    pub fn to_json(&self) -> Value {
        json!({
            "family": "lsp",
            "disk": self.disk,
            "bursts": self.bursts.iter().map(|b| b.iter().map(Msg::to_json).collect::<Vec<_>>()).collect::<Vec<_>>(),
            "io_seed": self.io_seed.to_string(),
            "short_io": self.short_io,
            "coop": self.coop,
            "scheduler": self.scheduler.to_json(),
        })
    }
    pub fn from_json(value: &Value) -> Option<Self> {
        Some(Self {
            disk: value["disk"].as_array()?.iter().map(|t| t.as_str().map(str::to_string)).collect::<Option<Vec<_>>>()?,
            bursts: value["bursts"]
                .as_array()?
                .iter()
                .map(|b| b.as_array()?.iter().map(Msg::from_json).collect::<Option<Vec<_>>>())
                .collect::<Option<Vec<_>>>()?,
            io_seed: value["io_seed"].as_str()?.parse().ok()?,
            short_io: value["short_io"].as_bool()?,
            coop: value["coop"].as_u64().unwrap_or(0) as u32,
            scheduler: SchedulerChoice::from_json(&value["scheduler"])?,
        })
    }
    pub fn abstract_text(&self) -> String {
        self.bursts
            .iter()
            .map(|b| b.iter().map(|m| m.label().replace(|c: char| c.is_ascii_digit(), "#")).collect::<Vec<_>>().join(","))
            .collect::<Vec<_>>()
            .join(" | ")
    }
    /// Smaller workloads for minimisation: drop one message, or split nothing else.
    pub fn reductions(&self) -> Vec<LspWorkload> {
        let mut out = Vec::new();
        for (b, burst) in self.bursts.iter().enumerate() {
            for m in 0..burst.len() {
                let mut candidate = self.clone();
                candidate.bursts[b].remove(m);
                if candidate.bursts[b].is_empty() {
                    candidate.bursts.remove(b);
                }
                if candidate.well_formed() {
                    out.push(candidate);
                }
            }
        }
        if self.short_io {
            let mut candidate = self.clone();
            candidate.short_io = false;
            out.push(candidate);
        }
        if self.coop > 0 {
            let mut candidate = self.clone();
            candidate.coop = 0;
            out.push(candidate);
        }
        out
    }
    /// Versions of one document increase and `change`/`save`/`close` address an open document.
    pub fn well_formed(&self) -> bool {
        let mut open = [false; 3];
        let mut last = [0i64; 3];
        for message in self.bursts.iter().flatten() {
            match message {
                | Msg::Open { doc, version, .. } => {
                    if open[*doc] || *version <= last[*doc] {
                        return false;
                    }
                    open[*doc] = true;
                    last[*doc] = *version;
                }
                | Msg::Change { doc, version, .. } => {
                    if !open[*doc] || *version <= last[*doc] {
                        return false;
                    }
                    last[*doc] = *version;
                }
                | Msg::Save { doc, .. } => {
                    if !open[*doc] {
                        return false;
                    }
                }
                | Msg::Close { doc } => {
                    if !open[*doc] {
                        return false;
                    }
                    open[*doc] = false;
                }
                | _ => {}
            }
        }
        !self.bursts.is_empty()
    }
}

// ------------------------------------------------------------------ generation
fn text_for(rng: &mut Rng, doc: usize, n: usize) -> String {
    match doc {
        | 0 => match rng.weighted(&[6, 3, 2, 3, 1]) {
            | 0 => format!("let v{n} = @[import(\"a.zy\")] _ in (v{n}, {n})"),
            | 1 => format!("(@[import(\"a.zy\")] _, nope{n})"),
            | 2 => format!("let w{n} = {n} in (w{n}, w{n})"),
            | 3 => format!("let w{n} = @[import(\"b.zy\")] _ in let u{n} = @[import(\"a.zy\")] _ in (w{n}, u{n})"),
            | _ => format!("({n}, "),
        },
        | 1 => match rng.weighted(&[4, 3, 2, 4, 2, 1, 2]) {
            | 0 => format!("{n}"),
            | 1 => format!("\"s{n}\""),
            | 2 => format!("({n}, \"p{n}\")"),
            | 3 => format!("let y{n} = @[import(\"b.zy\")] _ in (y{n}, {n})"),
            | 4 => format!("nope{n}"),
            | 5 => format!("({n}, "),
            | _ => format!("{}(\"t{n}\" : @[intrinsic(i64)] _)", " ".repeat(n % 5)),
        },
        | _ => match rng.weighted(&[4, 3, 2, 1]) {
            | 0 => format!("{n}"),
            | 1 => format!("\"b{n}\""),
            | 2 => format!("nope{n}"),
            | _ => format!("(\"b{n}\", {n})"),
        },
    }
}

pub struct GeneratedLsp {
    pub workload: LspWorkload,
    pub schedules: u64,
}

pub fn generate(seed: u64, thorough: bool) -> GeneratedLsp {
    let mut rng = Rng::new(mix(seed, 31, 1));
    let mut counter = 10usize;
    let mut fresh = |rng: &mut Rng, doc: usize| {
        counter += 1;
        let mut text = text_for(rng, doc, counter);
        // a trailing unattached text block: the analysis SUCCEEDS (a project is cached, hover works)
        // and still publishes a located warning whose range depends on this very text
        if rng.chance(2, 5) {
            for _ in 0..(1 + counter % 3) {
                text.push_str(&format!("\n--| note {counter}"));
            }
        }
        text
    };
    let disk: Vec<String> = (0..3).map(|doc| fresh(&mut rng, doc)).collect();
    let mut open = [false; 3];
    let mut version = [0i64; 3];
    let mut bursts = Vec::new();
    let burst_count = rng.range(2, if thorough { 6 } else { 5 });
    for _ in 0..burst_count {
        // many bursts are singletons (quiescent, judged exactly); the others race 2-6 messages
        let size = if rng.chance(2, 5) { 1 } else { rng.range(2, 6) };
        let mut burst = Vec::new();
        // a tab closed and reopened while its analysis is still in flight, then an edit elsewhere:
        // the shape in which a revision number must not be reused
        if size > 1 && rng.chance(1, 6) {
            let doc = *rng.pick(&[0, 0, 1]);
            let other = *rng.pick(&[1, 2, 2, 0]);
            if !open[doc] && other != doc && open[other] {
                version[doc] += 1;
                open[doc] = true;
                burst.push(Msg::Open { doc, version: version[doc], text: fresh(&mut rng, doc) });
                burst.push(Msg::Close { doc });
                version[doc] += 1;
                burst.push(Msg::Open { doc, version: version[doc], text: fresh(&mut rng, doc) });
                version[other] += 1;
                burst.push(Msg::Change { doc: other, version: version[other], text: fresh(&mut rng, other) });
                bursts.push(burst);
                // ... and afterwards the editor asks again, alone
                bursts.push(vec![if rng.chance(1, 2) { Msg::Save { doc, text: None } } else { Msg::Symbols { doc } }]);
                continue;
            }
        }
        for _ in 0..size {
            let doc = *rng.pick(&[0, 0, 0, 1, 1, 2]);
            let message = if !open[doc] {
                match rng.weighted(&[8, 1, 1, 1, 1]) {
                    | 0 => {
                        version[doc] += 1;
                        open[doc] = true;
                        // editors usually open a file with its disk text
                        let text = if rng.chance(1, 3) { disk[doc].clone() } else { fresh(&mut rng, doc) };
                        Msg::Open { doc, version: version[doc], text }
                    }
                    | 1 => Msg::Hover { doc, character: rng.range(3, 6) as u32 },
                    | 2 => Msg::Symbols { doc },
                    | 3 => Msg::References { doc, character: rng.range(3, 30) as u32, declaration: rng.chance(1, 2) },
                    | _ => Msg::Tokens { doc },
                }
            } else {
                match rng.weighted(&[10, 2, 1, 2, 4, 2, 2, 1, 2, 1]) {
                    | 0 => {
                        version[doc] += 1;
                        Msg::Change { doc, version: version[doc], text: fresh(&mut rng, doc) }
                    }
                    | 1 => Msg::Save { doc, text: None },
                    | 2 => Msg::Save { doc, text: Some(fresh(&mut rng, doc)) },
                    | 3 => {
                        open[doc] = false;
                        Msg::Close { doc }
                    }
                    | 4 => Msg::Hover { doc, character: rng.range(3, 6) as u32 },
                    | 5 => Msg::Symbols { doc },
                    | 6 => Msg::Definition { doc, character: rng.range(3, 30) as u32 },
                    | 7 => Msg::Tokens { doc },
                    | 8 => Msg::References { doc, character: rng.range(3, 30) as u32, declaration: rng.chance(1, 2) },
                    | _ => Msg::Formatting { doc },
                }
            };
            burst.push(message);
        }
        bursts.push(burst);
    }
    let scheduler = if rng.chance(1, 2) {
        SchedulerChoice::Horizon {
            seed: mix(seed, 31, 2),
            depth: rng.range(1, 4),
            horizon: *rng.pick(&[10, 30, 100, 300, 1000, 3000, 10000]),
        }
    } else {
        SchedulerChoice::Random { seed: mix(seed, 31, 2) }
    };
    let short_io = rng.chance(1, 3);
    let coop = *rng.pick(&[0, 0, 8, 32, 96]);
    let workload = LspWorkload { disk, bursts, io_seed: mix(seed, 31, 3), short_io, coop, scheduler };
    debug_assert!(workload.well_formed());
    GeneratedLsp { workload, schedules: if thorough { 3 } else { 2 } }
}

// ------------------------------------------------------------------ wire format
pub fn uri(world: &Path, doc: usize) -> String {
    format!("file://{}/{}", world.display(), DOCS[doc])
}

fn wire(world: &Path, id: &mut i64, message: &Msg) -> Value {
    let text_document = |doc: usize| json!({"uri": uri(world, doc)});
    let mut request = |method: &str, params: Value| {
        *id += 1;
        json!({"jsonrpc": "2.0", "id": *id, "method": method, "params": params})
    };
    match message {
        | Msg::Open { doc, version, text } => json!({"jsonrpc": "2.0", "method": "textDocument/didOpen", "params": {
            "textDocument": {"uri": uri(world, *doc), "languageId": "zydeco", "version": version, "text": text}}}),
        | Msg::Change { doc, version, text } => json!({"jsonrpc": "2.0", "method": "textDocument/didChange", "params": {
            "textDocument": {"uri": uri(world, *doc), "version": version}, "contentChanges": [{"text": text}]}}),
        | Msg::Save { doc, text } => {
            let mut params = json!({"textDocument": text_document(*doc)});
            if let Some(text) = text {
                params["text"] = json!(text);
            }
            json!({"jsonrpc": "2.0", "method": "textDocument/didSave", "params": params})
        }
        | Msg::Close { doc } => {
            json!({"jsonrpc": "2.0", "method": "textDocument/didClose", "params": {"textDocument": text_document(*doc)}})
        }
        | Msg::Hover { doc, character } => request(
            "textDocument/hover",
            json!({"textDocument": text_document(*doc), "position": {"line": 0, "character": character}}),
        ),
        | Msg::Definition { doc, character } => request(
            "textDocument/definition",
            json!({"textDocument": text_document(*doc), "position": {"line": 0, "character": character}}),
        ),
        | Msg::Symbols { doc } => request("textDocument/documentSymbol", json!({"textDocument": text_document(*doc)})),
        | Msg::Tokens { doc } => request("textDocument/semanticTokens/full", json!({"textDocument": text_document(*doc)})),
        | Msg::References { doc, character, declaration } => request(
            "textDocument/references",
            json!({"textDocument": text_document(*doc), "position": {"line": 0, "character": character},
                   "context": {"includeDeclaration": declaration}}),
        ),
        | Msg::Formatting { doc } => request(
            "textDocument/formatting",
            json!({"textDocument": text_document(*doc), "options": {"tabSize": 2, "insertSpaces": true}}),
        ),
    }
}

fn frame(value: &Value) -> Vec<u8> {
    let body = serde_json::to_vec(value).unwrap();
    let mut bytes = format!("Content-Length: {}\r\n\r\n", body.len()).into_bytes();
    bytes.extend(body);
    bytes
}

// ------------------------------------------------------------------ the cooperative-yield seam (hook H4)
// tokio's cooperative budget, as the server would meet it inside a runtime: each poll of the
// top-level task may run out of budget at some resource operation; that operation and EVERY
// later one in the same poll return `Pending` once (self-woken), the next poll starts with a
// fresh budget.  The simulator decides at which acquisition the budget runs out.
struct Coop {
    rng: Rng,
    rate: u32,
    fired: u64,
    poll_epoch: u64,
    exhausted_in: Option<u64>,
}

static COOP: StdMutex<Option<Coop>> = StdMutex::new(None);

/// Registered with `cajun::verif::set_cooperative_yield`.
pub fn cooperative_yield() -> bool {
    let mut guard = COOP.lock().unwrap();
    match guard.as_mut() {
        | Some(coop) if coop.rate > 0 => {
            if coop.exhausted_in == Some(coop.poll_epoch) {
                return true;
            }
            let fire = (coop.rng.below(256) as u32) < coop.rate;
            if fire {
                coop.fired += 1;
                coop.exhausted_in = Some(coop.poll_epoch);
            }
            fire
        }
        | _ => false,
    }
}

fn coop_arm(seed: u64, rate: u32) {
    *COOP.lock().unwrap() = Some(Coop { rng: Rng::new(mix(seed, 3, 0)), rate, fired: 0, poll_epoch: 0, exhausted_in: None });
}

fn coop_disarm() -> u64 {
    COOP.lock().unwrap().take().map(|coop| coop.fired).unwrap_or(0)
}

/// Counts the polls of the top-level (server) future: one poll = one budget.
struct TopLevel<F>(Pin<Box<F>>);

impl<F: std::future::Future> std::future::Future for TopLevel<F> {
    type Output = F::Output;
    fn poll(mut self: Pin<&mut Self>, cx: &mut Context<'_>) -> Poll<F::Output> {
        if let Some(coop) = COOP.lock().unwrap().as_mut() {
            coop.poll_epoch += 1;
        }
        self.0.as_mut().poll(cx)
    }
}

// ------------------------------------------------------------------ the transport seam
#[derive(Default)]
struct Wire {
    frames: Vec<Value>,
    partial: Vec<u8>,
    reader_waker: Option<Waker>,
    short_reads: u64,
    short_writes: u64,
    logs: u64,
    released: usize,
    /// (frames seen when the burst was released) per burst
    release_points: Vec<usize>,
}

struct ScriptReader {
    wire: Arc<StdMutex<Wire>>,
    /// (bytes, frames the server must have written before the NEXT burst is released)
    bursts: VecDeque<(Vec<u8>, usize)>,
    current: Vec<u8>,
    position: usize,
    gate: usize,
    rng: Rng,
    short: bool,
}

impl tokio::io::AsyncRead for ScriptReader {
    fn poll_read(
        mut self: Pin<&mut Self>, cx: &mut Context<'_>, buffer: &mut tokio::io::ReadBuf<'_>,
    ) -> Poll<std::io::Result<()>> {
        let this = &mut *self;
        if this.position >= this.current.len() {
            let mut wire = this.wire.lock().unwrap();
            if wire.frames.len() < this.gate {
                wire.reader_waker = Some(cx.waker().clone());
                return Poll::Pending;
            }
            match this.bursts.pop_front() {
                | Some((bytes, gate)) => {
                    let seen = wire.frames.len();
                    wire.released += 1;
                    wire.release_points.push(seen);
                    this.current = bytes;
                    this.position = 0;
                    this.gate = gate;
                }
                | None => return Poll::Ready(Ok(())), // end of input
            }
        }
        let remaining = this.current.len() - this.position;
        let mut count = remaining.min(buffer.remaining());
        if this.short && count > 1 {
            let limit = count.min(48);
            count = 1 + this.rng.below(limit);
            this.wire.lock().unwrap().short_reads += 1;
        }
        buffer.put_slice(&this.current[this.position..this.position + count]);
        this.position += count;
        Poll::Ready(Ok(()))
    }
}

struct FrameCollector {
    wire: Arc<StdMutex<Wire>>,
    rng: Rng,
    short: bool,
}

impl tokio::io::AsyncWrite for FrameCollector {
    fn poll_write(mut self: Pin<&mut Self>, _: &mut Context<'_>, bytes: &[u8]) -> Poll<std::io::Result<usize>> {
        let this = &mut *self;
        let mut count = bytes.len();
        let mut wire = this.wire.lock().unwrap();
        if this.short && count > 1 {
            count = 1 + this.rng.below(count.min(64));
            wire.short_writes += 1;
        }
        wire.partial.extend_from_slice(&bytes[..count]);
        let mut completed = false;
        loop {
            let Some(header_end) = wire.partial.windows(4).position(|w| w == b"\r\n\r\n") else { break };
            let header = String::from_utf8_lossy(&wire.partial[..header_end]).to_string();
            let length: usize = header
                .lines()
                .find_map(|line| line.strip_prefix("Content-Length: ").and_then(|n| n.trim().parse().ok()))
                .expect("frame without Content-Length");
            let start = header_end + 4;
            if wire.partial.len() < start + length {
                break;
            }
            let body: Value = serde_json::from_slice(&wire.partial[start..start + length]).expect("frame body is JSON");
            wire.partial.drain(..start + length);
            // log messages after the handshake (e.g. "skipped formatting ...") accompany an answer,
            // they are not one: kept apart so that every script message has exactly one frame
            if body["method"] == "window/logMessage" && wire.frames.len() >= 2 {
                wire.logs += 1;
                continue;
            }
            wire.frames.push(body);
            completed = true;
        }
        if completed {
            if let Some(waker) = wire.reader_waker.take() {
                waker.wake();
            }
        }
        Poll::Ready(Ok(count))
    }
    fn poll_flush(self: Pin<&mut Self>, _: &mut Context<'_>) -> Poll<std::io::Result<()>> {
        Poll::Ready(Ok(()))
    }
    fn poll_shutdown(self: Pin<&mut Self>, _: &mut Context<'_>) -> Poll<std::io::Result<()>> {
        Poll::Ready(Ok(()))
    }
}

pub struct Served {
    pub frames: Vec<Value>,
    pub release_points: Vec<usize>,
    pub short_reads: u64,
    pub short_writes: u64,
    pub cooperative_yields: u64,
}

/// Run one real server over the script; must be called inside a shuttle execution.
pub fn serve(world: &Path, bursts: &[Vec<Msg>], io_seed: u64, short_io: bool, coop: u32) -> Served {
    let mut id = 0i64;
    let mut queue = VecDeque::new();
    // handshake: `initialize` (one response), then `initialized` (one logMessage)
    id += 1;
    queue.push_back((frame(&json!({"jsonrpc": "2.0", "id": id, "method": "initialize", "params": {"capabilities": {}}})), 1usize));
    queue.push_back((frame(&json!({"jsonrpc": "2.0", "method": "initialized", "params": {}})), 2usize));
    let mut expected = 2usize;
    for burst in bursts {
        let mut bytes = Vec::new();
        for message in burst {
            bytes.extend(frame(&wire(world, &mut id, message)));
            expected += 1; // every message of the script has exactly one answer frame
        }
        queue.push_back((bytes, expected));
    }
    let shared = Arc::new(StdMutex::new(Wire::default()));
    let reader = ScriptReader {
        wire: Arc::clone(&shared),
        bursts: queue,
        current: Vec::new(),
        position: 0,
        gate: 0,
        rng: Rng::new(mix(io_seed, 1, 0)),
        short: short_io,
    };
    let writer = FrameCollector { wire: Arc::clone(&shared), rng: Rng::new(mix(io_seed, 2, 0)), short: short_io };
    let (service, socket) = tower_lsp::LspService::build(cajun::Cajun::new).finish();
    coop_arm(io_seed, coop);
    shuttle::future::block_on(TopLevel(Box::pin(tower_lsp::Server::new(reader, writer, socket).serve(service))));
    let cooperative_yields = coop_disarm();
    let mut wire = shared.lock().unwrap();
    Served {
        cooperative_yields,
        frames: std::mem::take(&mut wire.frames),
        release_points: std::mem::take(&mut wire.release_points),
        short_reads: wire.short_reads,
        short_writes: wire.short_writes,
    }
}

// ------------------------------------------------------------------ the sequential reference
/// Overlay texts of the three documents (`None` = not open: the disk text counts).
pub type Combination = [Option<String>; 3];

#[derive(Clone, Debug, PartialEq, Eq, PartialOrd, Ord)]
pub enum Ask {
    Publish,
    Request(String),
}

/// What a fresh server answers for `target` when the documents hold `combination`, every
/// message sent alone and answered before the next one (= "executed one at a time").
pub struct Reference<'a> {
    world: &'a Path,
    cache: BTreeMap<(Vec<Option<String>>, usize, Ask), Value>,
    pub runs: u64,
}

impl<'a> Reference<'a> {
    pub fn new(world: &'a Path) -> Self {
        Self { world, cache: BTreeMap::new(), runs: 0 }
    }

    pub fn answer(&mut self, combination: &Combination, target: usize, ask: &Ask, request: Option<&Msg>) -> Value {
        let key = (combination.to_vec(), target, ask.clone());
        if let Some(found) = self.cache.get(&key) {
            return found.clone();
        }
        let mut bursts: Vec<Vec<Msg>> = Vec::new();
        let mut order: Vec<usize> = (0..3).filter(|doc| *doc != target).collect();
        order.push(target);
        for doc in order {
            if let Some(text) = &combination[doc] {
                bursts.push(vec![Msg::Open { doc, version: 1, text: text.clone() }]);
            }
        }
        let target_open = combination[target].is_some();
        match (ask, request) {
            | (Ask::Publish, _) => {
                if !target_open {
                    // diagnostics of a closed document are never published
                    self.cache.insert(key, Value::Null);
                    return Value::Null;
                }
            }
            | (Ask::Request(_), Some(message)) => {
                if let Msg::Tokens { doc } = message {
                    // the analysed variant of the tokens: make sure an analysis is committed first
                    bursts.push(vec![Msg::Symbols { doc: *doc }]);
                }
                bursts.push(vec![message.clone()])
            }
            | _ => unreachable!(),
        }
        self.runs += 1;
        let served = serve(self.world, &bursts, 0, false, 0);
        let answer = match ask {
            | Ask::Publish => served
                .frames
                .iter()
                .rev()
                .find(|f| f["method"] == "textDocument/publishDiagnostics" && f["params"]["uri"] == uri(self.world, target))
                .map(|f| f["params"]["diagnostics"].clone())
                .unwrap_or(Value::Null),
            | Ask::Request(_) => served
                .frames
                .iter()
                .rev()
                .find(|f| f.get("id").is_some() && f.get("method").is_none() && f["id"] != 1)
                .map(|f| if f.get("error").is_some() { json!({"error": f["error"]}) } else { f["result"].clone() })
                .unwrap_or(json!("no response")),
        };
        self.cache.insert(key, answer.clone());
        answer
    }

    /// Semantic tokens of `text` before any analysis of it is available (the server then
    /// answers from the text alone): a never-opened file holding `text`, on a fresh server.
    pub fn lexical_tokens(&mut self, text: &str) -> Value {
        let key = (vec![Some(text.to_string())], 3usize, Ask::Request("lexical".into()));
        if let Some(found) = self.cache.get(&key) {
            return found.clone();
        }
        std::fs::write(self.world.join(DOCS[3]), text).expect("write lex.zy");
        self.runs += 1;
        let served = serve(self.world, &[vec![Msg::Tokens { doc: 3 }]], 0, false, 0);
        let answer = served
            .frames
            .iter()
            .rev()
            .find(|f| f.get("id").is_some() && f.get("method").is_none() && f["id"] != 1)
            .map(|f| f["result"].clone())
            .unwrap_or(json!("no response"));
        self.cache.insert(key, answer.clone());
        answer
    }
}

// ------------------------------------------------------------------ the oracle
pub struct Judgement {
    pub violation: Option<(String, String)>,
    pub probes: BTreeMap<String, u64>,
    pub outcome: String,
}

fn bump(probes: &mut BTreeMap<String, u64>, key: &str) {
    *probes.entry(key.to_string()).or_default() += 1;
}

fn clip(value: &Value) -> String {
    let text = value.to_string();
    if text.len() > 420 { format!("{}…", &text[..text.char_indices().take_while(|(i, _)| *i < 420).last().map(|(i, _)| i).unwrap_or(0)]) } else { text }
}

/// Every text a document may hold at some time of the script (disk = `None`).
fn admissible_texts(workload: &LspWorkload, doc: usize) -> Vec<Option<String>> {
    let mut texts: Vec<Option<String>> = vec![None];
    for message in workload.bursts.iter().flatten() {
        match message {
            | Msg::Open { doc: d, text, .. } | Msg::Change { doc: d, text, .. } | Msg::Save { doc: d, text: Some(text) }
                if *d == doc =>
            {
                if !texts.contains(&Some(text.clone())) {
                    texts.push(Some(text.clone()));
                }
            }
            | _ => {}
        }
    }
    texts
}

fn apply(state: &mut Combination, message: &Msg) {
    match message {
        | Msg::Open { doc, text, .. } | Msg::Change { doc, text, .. } | Msg::Save { doc, text: Some(text) } => {
            state[*doc] = Some(text.clone())
        }
        | Msg::Close { doc } => state[*doc] = None,
        | _ => {}
    }
}

pub fn judge(world: &Path, workload: &LspWorkload, served: &Served) -> Judgement {
    let mut probes = BTreeMap::new();
    let mut outcome = String::new();
    let mut reference = Reference::new(world);
    let frames = &served.frames;
    let violation = (|| -> Option<(String, String)> {
        // handshake
        if frames.len() < 2 || frames[0]["id"] != 1 || frames[0].get("result").is_none() {
            return Some(("C17:lsp-protocol".into(), format!("no initialize response: {}", clip(&json!(frames)))));
        }
        let mut cursor = 2usize; // frames consumed so far (bursts are answered before the next is released)
        let mut id = 1i64;
        let mut state: Combination = [None, None, None];
        // Every state the server's documents may really be in.  Without cooperative yields the
        // handlers take the session lock in arrival order and this is just `state`.  With them
        // (hook H4) the edits of ONE racing burst may be applied in any order (tower-lsp runs
        // notifications concurrently; FuturesUnordered may poll a later handler first after an
        // early return), and C17 says nothing about the order in which racing edits land.
        let mut alternatives: Vec<Combination> = vec![state.clone()];
        let per_doc: Vec<Vec<Option<String>>> = (0..3).map(|doc| admissible_texts(workload, doc)).collect();
        for (b, burst) in workload.bursts.iter().enumerate() {
            let answers = &frames[cursor.min(frames.len())..(cursor + burst.len()).min(frames.len())];
            if answers.len() < burst.len() {
                return Some((
                    "C17:lsp-lost-answer".into(),
                    format!("burst {b} ({} messages) got {} answer frames", burst.len(), answers.len()),
                ));
            }
            cursor += burst.len();
            let quiescent = burst.len() == 1;
            if !quiescent {
                bump(&mut probes, "bursts_with_racing_messages");
            }
            let before = state.clone();
            let relaxed = workload.coop > 0 && !quiescent;
            if relaxed {
                let mut next: Vec<Combination> = Vec::new();
                for alternative in &alternatives {
                    let options: Vec<Vec<Option<String>>> = (0..3)
                        .map(|doc| {
                            let mut effects: Vec<Option<String>> = Vec::new();
                            for message in burst.iter().filter(|m| m.doc() == doc) {
                                let mut probe: Combination = [None, None, None];
                                probe[doc] = Some("\u{0}unchanged".to_string());
                                apply(&mut probe, message);
                                if probe[doc].as_deref() != Some("\u{0}unchanged") && !effects.contains(&probe[doc]) {
                                    effects.push(probe[doc].clone());
                                }
                            }
                            if effects.is_empty() { vec![alternative[doc].clone()] } else { effects }
                        })
                        .collect();
                    for first in &options[0] {
                        for second in &options[1] {
                            for third in &options[2] {
                                let combination: Combination = [first.clone(), second.clone(), third.clone()];
                                if !next.contains(&combination) {
                                    next.push(combination);
                                }
                            }
                        }
                    }
                }
                alternatives = next;
            }
            let mut used = vec![false; answers.len()];
            for message in burst {
                apply(&mut state, message);
                if !relaxed {
                    for alternative in alternatives.iter_mut() {
                        apply(alternative, message);
                    }
                    alternatives.dedup();
                }
                let doc = message.doc();
                let target_uri = uri(world, doc);
                // find this message's answer frame
                let found = if message.is_request() {
                    id += 1;
                    answers.iter().position(|f| f.get("method").is_none() && f["id"] == id)
                } else {
                    let version = match message {
                        | Msg::Open { version, .. } | Msg::Change { version, .. } => json!(version),
                        | _ => Value::Null,
                    };
                    // `save` and `close` both publish without a version, in no fixed order: a close
                    // takes an empty publication, a save prefers a non-empty one
                    let candidates: Vec<usize> = (0..answers.len())
                        .filter(|i| {
                            let f = &answers[*i];
                            !used[*i]
                                && f["method"] == "textDocument/publishDiagnostics"
                                && f["params"]["uri"] == target_uri
                                && f["params"].get("version").cloned().unwrap_or(Value::Null) == version
                        })
                        .collect();
                    let is_empty = |i: &usize| answers[*i]["params"]["diagnostics"] == json!([]);
                    match message {
                        | Msg::Close { .. } => candidates.iter().copied().find(|i| is_empty(i)).or(candidates.first().copied()),
                        | Msg::Save { .. } => candidates.iter().copied().find(|i| !is_empty(i)).or(candidates.first().copied()),
                        | _ => candidates.first().copied(),
                    }
                };
                let Some(index) = found else {
                    return Some((
                        "C17:lsp-lost-answer".into(),
                        format!("no answer for `{}` in burst {b}: {}", message.label(), clip(&json!(answers))),
                    ));
                };
                used[index] = true;
                let answer = &answers[index];
                let (ask, observed) = if message.is_request() {
                    let observed = if answer.get("error").is_some() { json!({"error": answer["error"]}) } else { answer["result"].clone() };
                    (Ask::Request(message.label()), observed)
                } else {
                    (Ask::Publish, answer["params"]["diagnostics"].clone())
                };
                if matches!(message, Msg::Close { .. }) {
                    if observed != json!([]) {
                        return Some(("C17:lsp-result-differs".into(), format!("`{}` published {}", message.label(), clip(&observed))));
                    }
                    continue;
                }
                // the exact expectation: every message executed one at a time, in script order
                if observed != json!([]) && !observed.is_null() {
                    bump(&mut probes, if message.is_request() { "request_answers_non_null" } else { "publishes_non_empty" });
                }
                let exact = reference.answer(&state, doc, &ask, Some(message));
                let exact_ok = observed == exact
                    || (quiescent
                        && alternatives.len() > 1
                        && alternatives.iter().any(|alternative| {
                            // (the server may hold the document closed although the script says open)
                            let mut alternative = alternative.clone();
                            if matches!(ask, Ask::Publish) && alternative[doc].is_none() {
                                alternative[doc] = Some(workload.disk[doc].clone());
                            }
                            reference.answer(&alternative, doc, &ask, Some(message)) == observed
                        }));
                outcome.push_str(if exact_ok { "=" } else if observed == json!([]) || observed.is_null() { "0" } else { "~" });
                if exact_ok {
                    bump(&mut probes, if quiescent { "quiescent_answers_exact" } else { "racing_answers_equal_script_order" });
                    continue;
                }
                // what the edit pins: a versioned publish speaks about exactly that text
                // (a `save` publishes without a version: next to other saves or a close of the same
                // document its publication cannot be told from theirs, so only a lone save is pinned)
                let pinned: Option<Option<String>> = match message {
                    // (with cooperative yields the edits of one racing burst land in any order, and a
                    // handler that yields between installing its text and reading the revision
                    // analyses - and labels with its own version - whatever landed last)
                    | Msg::Open { text, .. } | Msg::Change { text, .. } if !relaxed => Some(Some(text.clone())),
                    | Msg::Save { text: Some(text), .. } if quiescent => Some(Some(text.clone())),
                    | _ => None,
                };
                if quiescent && pinned.is_some() {
                    return Some((
                        "C17:lsp-result-differs".into(),
                        format!(
                            "`{}` sent alone after everything before it was answered: published {} but a fresh server holding the same documents publishes {}",
                            message.label(), clip(&observed), clip(&exact)
                        ),
                    ));
                }
                // cancelled / superseded: nothing is reported
                let empty = observed == json!([]) || observed.is_null();
                if empty && !quiescent {
                    bump(&mut probes, "racing_answer_empty(cancelled_or_superseded)");
                    continue;
                }
                // A request may always be declined (`null`): the handlers answer nothing when the
                // refresh failed or was superseded, and - also when sent alone - when the cached
                // project of a document no longer matches the session because an IMPORTED document
                // was edited since (cajun keys its cache by the document's own revision only; see
                // DESIGN §11, incidental observation).  What C17 forbids is a non-null answer that
                // no single combination of versions explains, which is checked below.
                if observed.is_null() && message.is_request() {
                    bump(&mut probes, "quiescent_request_declined(null)");
                    continue;
                }
                // otherwise the answer must be what SOME combination of versions yields
                let mut candidates: Vec<Combination> = Vec::new();
                let target_texts: Vec<Option<String>> = match &pinned {
                    | Some(text) => vec![text.clone()],
                    // sent alone: the document's own text is the current one (a cached analysis is
                    // only reused while the document's revision is unchanged)
                    | None if quiescent => {
                        let mut texts: Vec<Option<String>> = alternatives.iter().map(|a| a[doc].clone()).collect();
                        texts.dedup();
                        texts
                    }
                    | None => per_doc[doc].clone(),
                };
                let others: Vec<usize> = (0..3).filter(|d| *d != doc).collect();
                for target_text in &target_texts {
                    for first in &per_doc[others[0]] {
                        for second in &per_doc[others[1]] {
                            let mut combination: Combination = [None, None, None];
                            combination[doc] = target_text.clone();
                            combination[others[0]] = first.clone();
                            combination[others[1]] = second.clone();
                            candidates.push(combination);
                        }
                    }
                }
                candidates.insert(0, before.clone());
                let explained = candidates.iter().any(|combination| {
                    if matches!(ask, Ask::Publish) && combination[doc].is_none() {
                        if workload.coop == 0 {
                            return false;
                        }
                        // a racing close may land between this handler's edit and its analysis: it
                        // then analyses - and publishes - the disk text
                        let mut on_disk = combination.clone();
                        on_disk[doc] = Some(workload.disk[doc].clone());
                        return reference.answer(&on_disk, doc, &ask, Some(message)) == observed;
                    }
                    reference.answer(combination, doc, &ask, Some(message)) == observed
                });
                if explained {
                    bump(&mut probes, if quiescent { "quiescent_answer_from_an_older_combination(cache)" } else { "racing_answer_from_another_combination" });
                    continue;
                }
                // semantic tokens never wait for an analysis: until one is committed for the
                // document's revision they are computed from the text alone
                if matches!(message, Msg::Tokens { .. }) {
                    let lexical = target_texts.iter().any(|text| {
                        let text = text.clone().unwrap_or_else(|| workload.disk[doc].clone());
                        reference.lexical_tokens(&text) == observed
                    });
                    if lexical {
                        bump(&mut probes, "tokens_from_the_text_alone(no_analysis_committed_yet)");
                        continue;
                    }
                }
                return Some((
                    "C17:lsp-mixed-revisions".into(),
                    format!(
                        "`{}` (burst {b}{}) was answered with {} which no combination of document versions yields on a fresh server ({} combinations tried; script order yields {})",
                        message.label(), if quiescent { ", sent alone" } else { "" }, clip(&observed), candidates.len(), clip(&exact)
                    ),
                ));
            }
        }
        if frames.len() != cursor {
            return Some(("C17:lsp-protocol".into(), format!("{} unexpected extra frames: {}", frames.len() - cursor, clip(&json!(frames[cursor..])))));
        }
        None
    })();
    *probes.entry("reference_server_runs".into()).or_default() += reference.runs;
    *probes.entry("short_reads".into()).or_default() += served.short_reads;
    *probes.entry("short_writes".into()).or_default() += served.short_writes;
    *probes.entry("cooperative_budget_exhaustions".into()).or_default() += served.cooperative_yields;
    Judgement { violation, probes, outcome }
}

pub fn prepare_world(run_dir: &PathBuf, workload: &LspWorkload) -> PathBuf {
    let world = run_dir.join("w");
    std::fs::create_dir_all(&world).expect("create world");
    for (doc, text) in workload.disk.iter().enumerate() {
        std::fs::write(world.join(DOCS[doc]), text).expect("write disk text");
    }
    world
}
