//! E3 `concsim` — C17: concurrent analyses on snapshots of one session, under shuttle.
//!
//! The whole session (zydeco_session + statics + surface), salsa's query engine with its
//! revision/cancellation logic (built with its `shuttle` feature) and DashMap's table
//! logic run for real; OS threads, parking and lock acquisition are shuttle's.  One seed
//! decides the workload, the hash keys and the schedule.
//!
//! usage: concsim run --tier T --seed S --shard I/N --runs R --out FILE
//!        concsim replay FILE

mod lsp;
mod sched;
mod workload;

use simcore::observe::{Observer, Strictness};
use simcore::ops::{Op, Query, apply_to_model};
use simcore::world::{Model, SLOTS, Side};
use std::collections::{BTreeMap, BTreeSet};
use std::panic::{AssertUnwindSafe, catch_unwind};
use std::path::PathBuf;
use std::sync::atomic::{AtomicU64, Ordering};
use std::sync::{Arc, Mutex as StdMutex};
use workload::{ReaderScript, SchedulerChoice, Workload};
use zysim_common::{ChildOutcome, Value, json, mix, run_forked, shim};

const ENGINE: u64 = 3;
const CHILD_TIMEOUT_S: u64 = 120;
const MAX_STEPS: usize = 100_000_000;

// ------------------------------------------------------------------ simulator-owned seams
static CONTENDED: AtomicU64 = AtomicU64::new(0);
static LOCK_POINTS: AtomicU64 = AtomicU64::new(0);
static IN_SHUTTLE: AtomicU64 = AtomicU64::new(0);
static FIRST_PANIC: StdMutex<Option<String>> = StdMutex::new(None);

/// DashMap shard-lock acquisition (vendored dashmap, Appendix A.3).
#[unsafe(no_mangle)]
pub extern "C" fn __zysim_yield(kind: u32) {
    if IN_SHUTTLE.load(Ordering::Relaxed) == 0 {
        return;
    }
    if kind == 2 {
        CONTENDED.fetch_add(1, Ordering::Relaxed);
        shuttle::thread::yield_now();
    } else {
        LOCK_POINTS.fetch_add(1, Ordering::Relaxed);
        shuttle::thread::sleep(std::time::Duration::from_secs(0));
    }
}

/// Hook H1: scheduling point before every operation of the key-space counter.
fn key_space_point() {
    if IN_SHUTTLE.load(Ordering::Relaxed) != 0 {
        shuttle::thread::sleep(std::time::Duration::from_secs(0));
    }
}

unsafe extern "C" {
    fn __shuttle_benign_unwind_reset();
    fn __shuttle_benign_unwind(delta: i32);
}

/// Balance the panic hook's `+1` once a hooked panic has been caught by the harness.
fn caught(payload: &(dyn std::any::Any + Send)) {
    if payload.downcast_ref::<salsa::Cancelled>().is_none() {
        unsafe { __shuttle_benign_unwind(-1) };
    }
}

fn normalise_panic(message: &str) -> String {
    simcore::observe::mask_key_spaces(&message.replace(|c: char| c.is_ascii_digit(), "#"))
}

zydeco_utils::new_key_type! {
    struct ProbeId;
}
enum ProbeScope {}
impl zydeco_utils::arena::Allocates<ProbeId> for ProbeScope {}

// ------------------------------------------------------------------ event log
#[derive(Default)]
struct Log {
    seq: AtomicU64,
    events: StdMutex<Vec<Value>>,
}

impl Log {
    fn tick(&self) -> u64 {
        self.seq.fetch_add(1, Ordering::Relaxed)
    }
    fn push(&self, event: Value) {
        self.events.lock().unwrap_or_else(|e| e.into_inner()).push(event);
    }
}

struct OwnerState {
    owner: cajun::verif::Owner,
    model: Model,
    versions: Vec<Model>,
}

fn sleeps(count: u8) {
    for _ in 0..count {
        shuttle::thread::sleep(std::time::Duration::from_secs(0));
    }
}

/// Run a reader script against a snapshot, exactly as a cajun worker would.
fn reader_answer(observer: &Observer, snapshot: &zydeco_session::CompilerSession, root: usize, script: &ReaderScript) -> String {
    let path = observer.side.path(root);
    match script {
        | ReaderScript::Load => match cajun::verif::load_diagnostics(&path, snapshot) {
            | Ok(diagnostics) => simcore::observe::mask_key_spaces(&format!(
                "Ok {}",
                diagnostics.join(" | ").replace(&observer.side.prefix(), "<W>")
            )),
            | Err(error) => simcore::observe::mask_key_spaces(&format!("Err {}", error.replace(&observer.side.prefix(), "<W>"))),
        },
        | ReaderScript::Queries(queries) => {
            queries.iter().map(|query| observer.ask_raw(snapshot, &path, query)).collect::<Vec<_>>().join("\n====\n")
        }
    }
}

fn classify_payload(payload: &(dyn std::any::Any + Send)) -> (String, bool) {
    caught(payload);
    if let Some(cancelled) = payload.downcast_ref::<salsa::Cancelled>() {
        (format!("reraised-cancellation({cancelled:?})"), true)
    } else {
        (format!("panic({})", normalise_panic(&zysim_common::panic_message(payload))), false)
    }
}

/// Run an oracle computation; a panic is part of the sequential answer.
fn sequentially(body: impl FnOnce() -> String) -> String {
    match catch_unwind(AssertUnwindSafe(body)) {
        | Ok(answer) => answer,
        | Err(payload) => {
            caught(&*payload);
            format!("panic({})", normalise_panic(&zysim_common::panic_message(&*payload)))
        }
    }
}

/// The body of one shuttle execution.  Everything observable is appended to `log`.
fn scenario(workload: Arc<Workload>, run_dir: PathBuf, log: Arc<Log>) {
    let s_side = Side::new(&run_dir, "s");
    let f_side = Side::new(&run_dir, "f");
    s_side.create(false).expect("create S world");
    f_side.create(false).expect("create F world");
    // ---- set-up phase (single task)
    let mut state = OwnerState { owner: cajun::verif::Owner::default(), model: Model::new(false), versions: Vec::new() };
    for op in &workload.setup {
        if !op.allowed(&state.model) {
            continue;
        }
        if let Err(payload) = catch_unwind(AssertUnwindSafe(|| apply_owner_op(&mut state, &s_side, op))) {
            caught(&*payload); // a sequential panic during set-up is not C17's concern
        }
    }
    state.versions.push(state.model.clone());
    let shared = Arc::new(shuttle::sync::Mutex::new(state));
    let mut handles = Vec::new();

    // ---- owner
    {
        let shared = Arc::clone(&shared);
        let log = Arc::clone(&log);
        let workload = Arc::clone(&workload);
        let s_side = s_side.clone();
        handles.push(shuttle::thread::spawn(move || {
            for (index, step) in workload.owner.iter().enumerate() {
                sleeps(step.sleeps);
                let mut guard = shared.lock().unwrap_or_else(|e| e.into_inner());
                if !step.op.allowed(&guard.model) || !workload::concurrent_edit_allowed(&guard.model, &step.op) {
                    continue;
                }
                let invoke = log.tick();
                let outcome = catch_unwind(AssertUnwindSafe(|| apply_owner_op(&mut guard, &s_side, &step.op)));
                let ret = log.tick();
                let version = guard.versions.len();
                let model_now = guard.model.clone();
                guard.versions.push(model_now);
                drop(guard);
                match outcome {
                    | Ok(()) => log.push(json!({"task": "owner", "kind": "edit", "index": index, "op": step.op.abstract_label(),
                        "invoke": invoke, "return": ret, "version": version})),
                    | Err(payload) => {
                        let (what, _) = classify_payload(&*payload);
                        let kind = if step.op.is_query() { "owner-query-panicked" } else { "edit-panicked" };
                        log.push(json!({"task": "owner", "kind": kind, "index": index, "op": step.op.abstract_label(),
                            "invoke": invoke, "return": ret, "what": what}));
                        if !step.op.is_query() {
                            return;
                        }
                    }
                }
            }
        }));
    }

    // ---- readers
    for (reader, steps) in workload.readers.iter().enumerate() {
        let shared = Arc::clone(&shared);
        let log = Arc::clone(&log);
        let steps = steps.clone();
        let s_side = s_side.clone();
        handles.push(shuttle::thread::spawn(move || {
            let observer = Observer { side: &s_side, strictness: Strictness::Exact };
            for (index, step) in steps.iter().enumerate() {
                sleeps(step.sleeps);
                let root = step.root;
                let root_path = s_side.path(root);
                // cajun's refresh_with_progress: the document revision is read under one
                // acquisition of the session mutex, the snapshot is taken under a second one
                let revision_before = {
                    let guard = shared.lock().unwrap_or_else(|e| e.into_inner());
                    guard.owner.revision(&root_path)
                };
                sleeps(step.sleeps % 3);
                let (snapshot, version, snapshot_seq, document_at_snapshot) = {
                    let guard = shared.lock().unwrap_or_else(|e| e.into_inner());
                    let snapshot = guard.owner.snapshot();
                    let document = guard.model.slots[root].overlay.as_ref().map(|c| c.render(&s_side, root));
                    (snapshot, guard.versions.len() - 1, log.tick(), document)
                };
                let script = step.script.clone();
                let observer_ref = &observer;
                let outcome = catch_unwind(AssertUnwindSafe(move || {
                    cajun::verif::analysis_task_run(move || {
                        let answer = reader_answer(observer_ref, &snapshot, root, &script);
                        drop(snapshot);
                        answer
                    })
                }));
                let result_seq = log.tick();
                let (status, detail) = match outcome {
                    | Ok(Some(answer)) => ("completed", answer),
                    | Ok(None) => ("cancelled", String::new()),
                    | Err(payload) => {
                        let (what, _) = classify_payload(&*payload);
                        ("crashed", what)
                    }
                };
                // cajun's commit_analysis: under the mutex, a result is committed only if the
                // document revision is still the one read before the analysis
                let (committed, document_at_commit, revision_after) = {
                    let guard = shared.lock().unwrap_or_else(|e| e.into_inner());
                    let revision_after = guard.owner.revision(&root_path);
                    let document = guard.model.slots[root].overlay.as_ref().map(|c| c.render(&s_side, root));
                    (status == "completed" && revision_after == revision_before, document, revision_after)
                };
                log.push(json!({"task": format!("reader{reader}"), "kind": "analysis", "index": index, "root": root,
                    "script": step.script.to_json(), "version": version, "snapshot": snapshot_seq, "result": result_seq,
                    "status": status, "detail": detail, "committed": committed,
                    "revision_before": revision_before, "revision_after": revision_after,
                    "document_unchanged": document_at_snapshot == document_at_commit}));
            }
        }));
    }

    // ---- identifier allocators
    for (task, count) in workload.allocators.iter().enumerate() {
        let log = Arc::clone(&log);
        let count = *count;
        handles.push(shuttle::thread::spawn(move || {
            let mut spaces = Vec::new();
            for _ in 0..count {
                let mut allocator = zydeco_utils::arena::IdAllocator::<ProbeScope>::new();
                let id: ProbeId = allocator.alloc();
                spaces.push(zydeco_utils::arena::ArenaId::key_space(id).as_u64().to_string());
            }
            log.push(json!({"task": format!("allocator{task}"), "kind": "key-spaces", "spaces": spaces}));
        }));
        let _ = task;
    }

    // ---- check_resolved on snapshots
    for (task, roots) in workload.checkers.iter().enumerate() {
        let shared = Arc::clone(&shared);
        let log = Arc::clone(&log);
        let roots = roots.clone();
        let s_side = s_side.clone();
        handles.push(shuttle::thread::spawn(move || {
            let observer = Observer { side: &s_side, strictness: Strictness::Exact };
            for (index, root) in roots.iter().enumerate() {
                let (snapshot, version, snapshot_seq) = {
                    let guard = shared.lock().unwrap_or_else(|e| e.into_inner());
                    (guard.owner.snapshot(), guard.versions.len() - 1, log.tick())
                };
                let root = *root;
                let observer_ref = &observer;
                let path = s_side.path(root);
                let outcome = catch_unwind(AssertUnwindSafe(move || {
                    salsa::Cancelled::catch(AssertUnwindSafe(move || {
                        let answer = observer_ref.ask_raw(&snapshot, &path, &Query::CheckResolved);
                        drop(snapshot);
                        answer
                    }))
                }));
                let result_seq = log.tick();
                let (status, detail) = match outcome {
                    | Ok(Ok(answer)) => ("completed", answer),
                    | Ok(Err(cancelled)) => ("cancelled", format!("{cancelled:?}")),
                    | Err(payload) => ("crashed", classify_payload(&*payload).0),
                };
                log.push(json!({"task": format!("checker{task}"), "kind": "check_resolved", "index": index, "root": root,
                    "version": version, "snapshot": snapshot_seq, "result": result_seq, "status": status, "detail": detail}));
            }
        }));
    }

    for handle in handles {
        if let Err(payload) = handle.join() {
            let (what, _) = classify_payload(&*payload);
            log.push(json!({"task": "main", "kind": "task-died", "what": what}));
        }
    }

    // ---- quiescence: sequential oracle, still inside the (now single-task) execution
    let state = shared.lock().unwrap_or_else(|e| e.into_inner());
    let observe_s = Observer { side: &s_side, strictness: Strictness::Exact };
    let observe_f = Observer { side: &f_side, strictness: Strictness::Exact };
    let events: Vec<Value> = log.events.lock().unwrap_or_else(|e| e.into_inner()).clone();
    let mut wanted: BTreeSet<(usize, usize, String)> = BTreeSet::new();
    for event in &events {
        if event["status"] == "completed" || event["status"] == "crashed" {
            let script = if event["kind"] == "check_resolved" { json!("check_resolved") } else { event["script"].clone() };
            wanted.insert((event["version"].as_u64().unwrap() as usize, event["root"].as_u64().unwrap() as usize, script.to_string()));
        }
    }
    let mut by_version: BTreeMap<usize, Vec<(usize, String)>> = BTreeMap::new();
    for (version, root, script) in wanted {
        by_version.entry(version).or_default().push((root, script));
    }
    for (version, asks) in by_version {
        let model = &state.versions[version];
        let fresh = fresh_session(&f_side, model);
        for (root, script_text) in asks {
            let expected = sequentially(|| {
                if script_text == "\"check_resolved\"" {
                    observe_f.ask_raw(&fresh, &f_side.path(root), &Query::CheckResolved)
                } else {
                    let script = ReaderScript::from_json(&serde_json::from_str(&script_text).unwrap()).unwrap();
                    reader_answer(&observe_f, &fresh, root, &script)
                }
            });
            log.push(json!({"task": "oracle", "kind": "expected", "version": version, "root": root, "script": script_text, "answer": expected}));
        }
    }
    // the owner's own answers at quiescence equal a fresh session's (C15's oracle)
    let final_model = state.versions.last().unwrap().clone();
    let fresh = fresh_session(&f_side, &final_model);
    for root in workload.roots.iter().copied() {
        for query in [Query::Analyze, Query::Execute] {
            let actual = sequentially(|| observe_s.ask_raw(state.owner.compiler(), &s_side.path(root), &query));
            let expected = sequentially(|| observe_f.ask_raw(&fresh, &f_side.path(root), &query));
            log.push(json!({"task": "oracle", "kind": "quiescent", "root": root, "query": query.label(),
                "equal": actual == expected, "actual": clip(&actual), "expected": clip(&expected)}));
        }
    }
}

fn clip(text: &str) -> String {
    text.chars().take(600).collect()
}

fn fresh_session(f_side: &Side, model: &Model) -> zydeco_session::CompilerSession {
    f_side.mirror(model);
    let mut session = zydeco_session::CompilerSession::default();
    for slot in 0..SLOTS.len() {
        if let Some(overlay) = &model.slots[slot].overlay {
            session.set_overlay(f_side.path(slot), overlay.render(f_side, slot)).expect("overlay on a fresh session");
        }
    }
    session
}

/// Apply one owner operation to the real session (through cajun's SessionState where the
/// server would) and to the model.
fn apply_owner_op(state: &mut OwnerState, s_side: &Side, op: &Op) {
    use simcore::world::Disk;
    match op {
        | Op::Ask { root, query } | Op::AskSnapshot { root, query } => {
            state.model.name(*root);
            let observer = Observer { side: s_side, strictness: Strictness::Exact };
            let _ = observer.ask_raw(state.owner.compiler(), &s_side.path(*root), query);
            state.model.after_query();
        }
        | Op::Evict => salsa::Database::trigger_lru_eviction(state.owner.compiler_mut()),
        | mutating => {
            let slot = mutating.slot().unwrap();
            let path = s_side.path(slot);
            match mutating {
                | Op::WriteRefresh { content, .. } | Op::SilentWrite { content, .. } => s_side.put(slot, &Disk::File(content.clone())),
                | Op::DeleteRefresh { .. } | Op::SilentDelete { .. } => s_side.put(slot, &Disk::Absent),
                | _ => {}
            }
            match mutating {
                | Op::SetOverlay { content, .. } => {
                    let _ = state.owner.set_document(&path, content.render(s_side, slot));
                }
                | Op::ClearOverlay { .. } => state.owner.close_document(&path),
                | Op::WriteRefresh { .. } | Op::DeleteRefresh { .. } | Op::Refresh { .. } => {
                    let _ = state.owner.compiler_mut().refresh_disk(&path);
                }
                | _ => {}
            }
            apply_to_model(&mut state.model, mutating);
            if !matches!(mutating, Op::SilentWrite { .. } | Op::SilentDelete { .. }) {
                state.model.name(slot);
            }
        }
    }
}

// ------------------------------------------------------------------ judging a finished execution
fn judge(events: &[Value], failure: Option<&str>) -> Option<(String, String)> {
    if let Some(failure) = failure {
        let class = if failure.contains("deadlock") {
            "C17:deadlock"
        } else if failure.contains("exceeded max_steps") || failure.contains("max_steps") {
            "C17:step-budget"
        } else {
            "C17:panic"
        };
        return Some((class.into(), format!("the execution failed: {}", clip(failure))));
    }
    let real_panic = events.iter().any(|e| {
        (e["status"] == "crashed" && e["detail"].as_str().map(|d| d.starts_with("panic(")).unwrap_or(false))
            || e["kind"] == "edit-panicked"
            || (e["kind"] == "task-died")
    });
    let edits: Vec<(u64, u64)> = events
        .iter()
        .filter(|e| e["task"] == "owner")
        .map(|e| (e["invoke"].as_u64().unwrap(), e["return"].as_u64().unwrap()))
        .collect();
    let expected: BTreeMap<(u64, u64, String), String> = events
        .iter()
        .filter(|e| e["kind"] == "expected")
        .map(|e| {
            (
                (e["version"].as_u64().unwrap(), e["root"].as_u64().unwrap(), e["script"].as_str().unwrap().to_string()),
                e["answer"].as_str().unwrap().to_string(),
            )
        })
        .collect();
    for event in events {
        if event["kind"] == "edit-panicked" || event["kind"] == "task-died" {
            return Some(("C17:panic".into(), format!("a task panicked: {}", event["what"])));
        }
        if event["kind"] == "expected" {
            continue;
        }
        if event["kind"] == "analysis" || event["kind"] == "check_resolved" {
            let (snapshot, result) = (event["snapshot"].as_u64().unwrap(), event["result"].as_u64().unwrap());
            let overlapped = edits.iter().any(|(invoke, ret)| *invoke < result && *ret > snapshot);
            match event["status"].as_str().unwrap() {
                | "cancelled" if !overlapped && !real_panic => {
                    return Some((
                        "C17:illegal-cancel".into(),
                        format!("{} #{} was cancelled although no edit overlapped it", event["task"], event["index"]),
                    ));
                }
                | "crashed" => {
                    let detail = event["detail"].as_str().unwrap_or("");
                    if detail.starts_with("panic(") {
                        // a panic the sequential execution reproduces is a totality / type-safety
                        // matter (C01, C10), not a concurrency defect
                        let script = if event["kind"] == "check_resolved" { "\"check_resolved\"".to_string() } else { event["script"].to_string() };
                        let key = (event["version"].as_u64().unwrap(), event["root"].as_u64().unwrap(), script);
                        if expected.get(&key).map(|answer| answer == detail).unwrap_or(false) {
                            continue;
                        }
                        return Some((
                            "C17:panic".into(),
                            format!(
                                "{} #{} panicked ({}) although the sequential execution on its snapshot's contents gives `{}`",
                                event["task"], event["index"], clip(detail),
                                clip(expected.get(&key).map(String::as_str).unwrap_or("<not computed>"))
                            ),
                        ));
                    }
                    if !real_panic {
                        return Some((
                            "C17:spurious-crash".into(),
                            format!(
                                "{} #{} (root {}) is reported as crashed ({detail}) although no task panicked{}",
                                event["task"],
                                event["index"],
                                SLOTS[event["root"].as_u64().unwrap() as usize],
                                if overlapped { "; an edit overlapped it, so it should count as cancelled" } else { "" }
                            ),
                        ));
                    }
                }
                // (judged for open documents only: a path that is not open has no revision, and what
                // the server should do for it while a client opens and closes it is not stated)
                | "completed"
                    if event["committed"] == true
                        && event["document_unchanged"] == false
                        && !event["revision_before"].is_null() =>
                {
                    return Some((
                        "C17:stale-commit".into(),
                        format!(
                            "{} #{} analysed {} at document revision {} and its result passed the revision check (revision {} at commit) although the open document's text had changed in between: results of one revision reported for another",
                            event["task"], event["index"], SLOTS[event["root"].as_u64().unwrap() as usize],
                            event["revision_before"], event["revision_after"]
                        ),
                    ));
                }
                | "completed" => {
                    let script = if event["kind"] == "check_resolved" { "\"check_resolved\"".to_string() } else { event["script"].to_string() };
                    let key = (event["version"].as_u64().unwrap(), event["root"].as_u64().unwrap(), script);
                    if let Some(answer) = expected.get(&key) {
                        if answer != event["detail"].as_str().unwrap() {
                            let class = if event["kind"] == "check_resolved" { "C17:check_resolved-wrong-program" } else { "C17:result-differs" };
                            return Some((
                                class.into(),
                                format!(
                                    "{} #{} completed on version {} of {} with an answer that differs from the sequential answer for that version: got `{}`, expected `{}`",
                                    event["task"], event["index"], key.0, SLOTS[key.1 as usize],
                                    clip(event["detail"].as_str().unwrap()), clip(answer)
                                ),
                            ));
                        }
                    }
                }
                | _ => {}
            }
        }
    }
    // key spaces pairwise distinct
    let mut seen = BTreeSet::new();
    for event in events.iter().filter(|e| e["kind"] == "key-spaces") {
        for space in event["spaces"].as_array().unwrap() {
            if !seen.insert(space.as_str().unwrap().to_string()) {
                return Some(("C17:keyspace-collision".into(), format!("key space {space} was issued twice")));
            }
        }
    }
    for event in events.iter().filter(|e| e["kind"] == "quiescent") {
        if event["equal"] == false {
            return Some((
                "C17:quiescent-divergence".into(),
                format!(
                    "after all tasks joined, {} of {} on the owner differs from a fresh session: got `{}`, expected `{}`",
                    event["query"], SLOTS[event["root"].as_u64().unwrap() as usize], event["actual"], event["expected"]
                ),
            ));
        }
    }
    None
}

// ------------------------------------------------------------------ one execution in a forked child
fn run_child(run_dir: &PathBuf, key: u64, workload: &Workload) -> Value {
    let run_dir = run_dir.clone();
    let workload = Arc::new(workload.clone());
    let scheduler = workload.scheduler;
    run_child_with(key, scheduler, move |log| scenario(Arc::clone(&workload), run_dir.clone(), log))
}

/// Hook H3: cajun's blocking analysis jobs run on shuttle threads.
fn blocking_spawner(job: cajun::verif::BlockingJob) {
    shuttle::thread::spawn(move || {
        if let Err(payload) = catch_unwind(AssertUnwindSafe(move || job())) {
            caught(&*payload);
        }
    });
}

/// One execution of the language-server family: the real server over a scripted transport.
fn run_lsp_child(run_dir: &PathBuf, key: u64, workload: &lsp::LspWorkload) -> Value {
    let run_dir = run_dir.clone();
    let workload = Arc::new(workload.clone());
    let scheduler = workload.scheduler;
    run_child_with(key, scheduler, move |log| {
        let world = lsp::prepare_world(&run_dir, &workload);
        let served = lsp::serve(&world, &workload.bursts, workload.io_seed, workload.short_io, workload.coop);
        let masked: Vec<Value> = served
            .frames
            .iter()
            .map(|frame| serde_json::from_str(&frame.to_string().replace(&world.display().to_string(), "<W>")).unwrap())
            .collect();
        log.push(json!({"kind": "lsp-frames", "frames": masked, "release_points": served.release_points}));
        let judgement = lsp::judge(&world, &workload, &served);
        log.push(json!({
            "kind": "lsp-judgement",
            "violation": judgement.violation.as_ref().map(|(class, message)| json!({"class": class, "message": message.replace(&world.display().to_string(), "<W>")})),
            "probes": judgement.probes, "outcome": judgement.outcome,
        }));
    })
}

fn run_child_with(
    key: u64, scheduler: SchedulerChoice, body: impl Fn(Arc<Log>) + Send + Sync + 'static,
) -> Value {
    let outcome = run_forked(CHILD_TIMEOUT_S, move || {
        shim::reseed(key);
        {
            // every hooked panic (not resume_unwind, i.e. not cancellations) is remembered; the
            // first one is the primary failure of the execution.  Optional backtraces for debugging.
            let path = std::env::var("CONCSIM_PANIC_LOG").ok();
            std::panic::set_hook(Box::new(move |info| {
                use std::io::Write;
                // A panic that the harness catches at the top of a task must not make shuttle
                // believe the whole test is over (it would close every semaphore): mark it as a
                // benign unwind; the catch sites call `caught_real_panic` to balance it.
                unsafe { __shuttle_benign_unwind(1) };
                let mut first = FIRST_PANIC.lock().unwrap_or_else(|e| e.into_inner());
                if first.is_none() {
                    *first = Some(info.to_string());
                    // survives an abort during unwinding (the parent reads the child's stderr)
                    eprintln!("ZYSIM-FIRST-PANIC: {}", info.to_string().replace('\n', " "));
                }
                if let Some(path) = &path {
                    if let Ok(mut file) = std::fs::OpenOptions::new().create(true).append(true).open(path) {
                        let _ = writeln!(file, "PANIC: {info}\n{}\n", std::backtrace::Backtrace::force_capture());
                    }
                }
            }));
        }
        zydeco_utils::verif::set_scheduling_hook(key_space_point);
        cajun::verif::set_blocking_spawner(blocking_spawner);
        cajun::verif::set_cooperative_yield(lsp::cooperative_yield);
        let log = Arc::new(Log::default());
        let log_for_run = Arc::clone(&log);
        let result = catch_unwind(AssertUnwindSafe(move || {
            let mut config = shuttle::Config::new();
            config.stack_size = 64 << 20;
            config.max_steps = shuttle::MaxSteps::FailAfter(MAX_STEPS);
            config.failure_persistence = shuttle::FailurePersistence::None;
            unsafe { __shuttle_benign_unwind_reset() };
            IN_SHUTTLE.store(1, Ordering::Relaxed);
            let body = move || body(Arc::clone(&log_for_run));
            match scheduler {
                | SchedulerChoice::Random { seed } => {
                    let scheduler = shuttle::scheduler::RandomScheduler::new_from_seed(seed, 1);
                    shuttle::Runner::new(scheduler, config).run(body);
                }
                | SchedulerChoice::Pct { seed, depth } => {
                    let scheduler = shuttle::scheduler::PctScheduler::new_from_seed(seed, depth, 1);
                    shuttle::Runner::new(scheduler, config).run(body);
                }
                | SchedulerChoice::Horizon { seed, depth, horizon } => {
                    let scheduler = sched::HorizonPct::new(seed, depth, horizon);
                    shuttle::Runner::new(scheduler, config).run(body);
                }
            }
        }));
        IN_SHUTTLE.store(0, Ordering::Relaxed);
        let failure = result.err().map(|payload| zysim_common::panic_message(&*payload));
        let events: Vec<Value> = log.events.lock().unwrap_or_else(|e| e.into_inner()).clone();
        let first_panic = FIRST_PANIC.lock().unwrap_or_else(|e| e.into_inner()).clone();
        let value = json!({
            "events": events, "failure": failure, "first_panic": first_panic,
            "contended": CONTENDED.load(Ordering::Relaxed), "lock_points": LOCK_POINTS.load(Ordering::Relaxed),
        });
        serde_json::to_vec(&value).unwrap()
    });
    match outcome {
        | ChildOutcome::Record(bytes) => serde_json::from_slice(&bytes).unwrap_or(json!({"failure": "unparsable child record", "events": []})),
        | ChildOutcome::Crashed { status, signal, stderr, .. } => {
            // the first panic message is what matters; the tail is usually a backtrace
            let text = String::from_utf8_lossy(&stderr).to_string();
            let head = text
                .find("ZYSIM-FIRST-PANIC: ")
                .map(|at| text[at + 19..].lines().next().unwrap_or("").to_string())
                .unwrap_or_default();
            let tail = &text[text.char_indices().rev().nth(500).map(|(i, _)| i).unwrap_or(0)..];
            json!({"events": [], "failure": format!("process died (status {status}, signal {signal}): {head} … {tail}")})
        }
        | ChildOutcome::TimedOut => json!({"events": [], "failure": "deadlock or livelock: wall-clock safety net fired", "timed_out": true}),
    }
}

fn verdict(record: &Value) -> Option<(String, String)> {
    let events: Vec<Value> = record["events"].as_array().cloned().unwrap_or_default();
    // a real panic anywhere is the primary failure: what shuttle reports afterwards
    // (deadlock, poisoned state) is a consequence of it
    if record["failure"].is_string() {
        if let Some(first) = record["first_panic"].as_str() {
            let first = first.replace(|c: char| c.is_ascii_digit(), "#");
            return Some(("C17:panic".into(), format!("the execution died after a panic no task handler caught: {}", clip(&first))));
        }
    }
    judge(&events, record["failure"].as_str())
}

fn argument<'a>(args: &'a [String], name: &str) -> Option<&'a str> {
    args.iter().position(|a| a == name).and_then(|i| args.get(i + 1)).map(String::as_str)
}

fn main() {
    let args: Vec<String> = std::env::args().collect();
    if !shim::present() {
        eprintln!("concsim: the zysim entropy seam is not loaded (LD_PRELOAD)");
        std::process::exit(2);
    }
    match args.get(1).map(String::as_str) {
        | Some("run") => run(&args[2..]),
        | Some("replay") => replay(&args[2]),
        | Some("lsp-run") => run_lsp(&args[2..]),
        | _ => {
            eprintln!("usage: concsim run|replay ...");
            std::process::exit(2);
        }
    }
}

/// Minimise: drop tasks and steps; every candidate is re-searched over a few schedules
/// because schedules do not transfer between workloads.
fn minimise(run_dir: &PathBuf, key: u64, workload: &Workload, class: &str, budget: usize) -> Workload {
    let mut best = workload.clone();
    let mut spent = 0usize;
    let mut fails = |candidate: &Workload, spent: &mut usize| -> Option<Workload> {
        for attempt in 0..6u64 {
            *spent += 1;
            let mut trial = candidate.clone();
            if attempt > 0 {
                trial.scheduler = trial.scheduler.reseeded(mix(key, 991, attempt));
            }
            let record = run_child(run_dir, key, &trial);
            if verdict(&record).map(|v| v.0 == class).unwrap_or(false) {
                return Some(trial);
            }
        }
        None
    };
    let mut progress = true;
    while progress && spent < budget {
        progress = false;
        for candidate in best.reductions() {
            if spent >= budget {
                break;
            }
            if let Some(found) = fails(&candidate, &mut spent) {
                best = found;
                progress = true;
                break;
            }
        }
    }
    best
}

fn run(args: &[String]) {
    let tier = argument(args, "--tier").unwrap_or("quick").to_string();
    let seed: u64 = argument(args, "--seed").and_then(|s| s.parse().ok()).unwrap_or(zysim_common::DEFAULT_SEED);
    let (shard, shards) = argument(args, "--shard")
        .and_then(|s| s.split_once('/'))
        .map(|(a, b)| (a.parse::<u64>().unwrap(), b.parse::<u64>().unwrap()))
        .unwrap_or((0, 1));
    let runs: u64 = argument(args, "--runs").and_then(|s| s.parse().ok()).unwrap_or(100);
    let out = argument(args, "--out").expect("--out").to_string();
    let keep_events = argument(args, "--events").is_some();
    let mut executions = 0u64;
    let mut workloads = BTreeSet::new();
    let mut outcomes = BTreeSet::new();
    let mut probes: BTreeMap<String, u64> = BTreeMap::new();
    let mut samples = Vec::new();
    let mut violations = Vec::new();
    let mut event_logs = Vec::new();
    let mut logical_steps = 0u64;
    let mut bump = |probes: &mut BTreeMap<String, u64>, key: &str, by: u64| *probes.entry(key.to_string()).or_default() += by;

    let mut index = shard;
    while index < runs {
        let seed_i = mix(seed, ENGINE, index);
        let generated = workload::generate(seed_i, tier == "thorough");
        let key = mix(seed_i, 77, 0);
        let run_dir = zysim_common::run_directory("conc", seed, index);
        let schedules = generated.schedules.max(1);
        workloads.insert(zysim_common::fnv1a(generated.workload.abstract_text().as_bytes()));
        for schedule in 0..schedules {
            let mut workload = generated.workload.clone();
            if schedule > 0 {
                workload.scheduler = workload.scheduler.reseeded(mix(seed_i, 55, schedule));
            }
            let record = run_child(&run_dir, key, &workload);
            executions += 1;
            let events: Vec<Value> = record["events"].as_array().cloned().unwrap_or_default();
            logical_steps += events.len() as u64;
            bump(&mut probes, "shard_lock_contended", record["contended"].as_u64().unwrap_or(0));
            bump(&mut probes, "shard_lock_acquisitions", record["lock_points"].as_u64().unwrap_or(0));
            let edits: Vec<(u64, u64)> = events
                .iter()
                .filter(|e| e["task"] == "owner" && e["kind"] == "edit")
                .map(|e| (e["invoke"].as_u64().unwrap(), e["return"].as_u64().unwrap()))
                .collect();
            let mut outcome_text = String::new();
            for event in &events {
                if event["kind"] == "analysis" || event["kind"] == "check_resolved" {
                    let status = event["status"].as_str().unwrap_or("?");
                    let (snapshot, result) = (event["snapshot"].as_u64().unwrap(), event["result"].as_u64().unwrap());
                    let overlapped = edits.iter().any(|(invoke, ret)| *invoke < result && *ret > snapshot);
                    bump(&mut probes, &format!("{}:{}", event["kind"].as_str().unwrap(), status), 1);
                    if status == "completed" && overlapped {
                        bump(&mut probes, "completed_although_overtaken_by_an_edit", 1);
                    }
                    if event["committed"] == true {
                        bump(&mut probes, "analysis_committed(revision check passed)", 1);
                    } else if status == "completed" && event["kind"] == "analysis" {
                        bump(&mut probes, "analysis_superseded(revision check failed)", 1);
                    }
                    if status == "crashed" {
                        bump(&mut probes, &format!("crashed:{}", event["detail"].as_str().unwrap_or("").chars().take(48).collect::<String>()), 1);
                    }
                    outcome_text.push_str(&format!("{}{}{};", event["task"], event["index"], status));
                }
                if event["kind"] == "edit" {
                    bump(&mut probes, "edits_applied", 1);
                }
            }
            outcomes.insert(zysim_common::fnv1a(format!("{}|{outcome_text}", generated.workload.abstract_text()).as_bytes()));
            if samples.len() < 2 && index % 5 == 1 && schedule == 0 {
                samples.push(json!({"index": index, "seed": seed_i.to_string(), "workload": workload.to_json(),
                    "outcomes": outcome_text}));
            }
            if keep_events {
                event_logs.push(json!({"index": index, "schedule": schedule, "events": events, "failure": record["failure"]}));
            }
            if let Some((class, message)) = verdict(&record) {
                if violations.len() < 4 {
                    let minimal = minimise(&run_dir, key, &workload, &class, 150);
                    let confirm = run_child(&run_dir, key, &minimal);
                    let (final_workload, final_message, final_record) = match verdict(&confirm) {
                        | Some((confirmed, message)) if confirmed == class => (minimal, message, confirm),
                        | _ => (workload.clone(), message, record.clone()),
                    };
                    violations.push(json!({
                        "property": "C17", "engine": "concsim", "class": class, "seed": seed.to_string(),
                        "run_index": index, "run_seed": seed_i.to_string(), "key": key.to_string(),
                        "run_dir": run_dir.to_string_lossy(),
                        "workload": final_workload.to_json(), "message": final_message,
                        "trace": final_record["events"].as_array().map(|events| events.iter().filter(|e| e["kind"] != "expected").cloned().collect::<Vec<_>>()),
                    }));
                } else {
                    violations.push(json!({"property": "C17", "class": class, "run_index": index, "unminimised": true}));
                }
                break;
            }
        }
        let _ = std::fs::remove_dir_all(&run_dir);
        index += shards;
    }
    let record = json!({
        "shard": shard, "shards": shards, "tier": tier, "seed": seed.to_string(),
        "executions": executions, "workloads": workloads.iter().map(|w| w.to_string()).collect::<Vec<_>>(),
        "outcomes": outcomes.iter().map(|w| w.to_string()).collect::<Vec<_>>(),
        "probes": probes, "samples": samples, "violations": violations, "logical_steps": logical_steps,
        "event_logs": event_logs,
    });
    std::fs::write(&out, serde_json::to_vec(&record).unwrap()).expect("write shard record");
}

fn verdict_lsp(record: &Value) -> Option<(String, String)> {
    if let Some(failure) = record["failure"].as_str() {
        if let Some(first) = record["first_panic"].as_str() {
            let first = first.replace(|c: char| c.is_ascii_digit(), "#");
            if !first.contains("deadlock") {
                return Some(("C17:lsp-panic".into(), format!("the server died after a panic: {}", clip(&first))));
            }
        }
        let class = if failure.contains("deadlock") { "C17:lsp-deadlock" } else { "C17:lsp-execution-died" };
        return Some((class.into(), format!("the server did not finish the script: {}", clip(&failure.replace(|c: char| c.is_ascii_digit(), "#")))));
    }
    let events = record["events"].as_array()?;
    let judgement = events.iter().find(|e| e["kind"] == "lsp-judgement")?;
    let violation = &judgement["violation"];
    Some((violation["class"].as_str()?.to_string(), violation["message"].as_str()?.to_string()))
}

fn minimise_lsp(run_dir: &PathBuf, key: u64, workload: &lsp::LspWorkload, class: &str, budget: usize) -> lsp::LspWorkload {
    let mut best = workload.clone();
    let mut spent = 0usize;
    let mut progress = true;
    while progress && spent < budget {
        progress = false;
        'candidates: for candidate in best.reductions() {
            for attempt in 0..4u64 {
                if spent >= budget {
                    break 'candidates;
                }
                spent += 1;
                let mut trial = candidate.clone();
                if attempt > 0 {
                    trial.scheduler = trial.scheduler.reseeded(mix(key, 993, attempt));
                }
                let record = run_lsp_child(run_dir, key, &trial);
                if verdict_lsp(&record).map(|v| v.0 == class).unwrap_or(false) {
                    best = trial;
                    progress = true;
                    break 'candidates;
                }
            }
        }
    }
    best
}

fn run_lsp(args: &[String]) {
    let tier = argument(args, "--tier").unwrap_or("quick").to_string();
    let seed: u64 = argument(args, "--seed").and_then(|s| s.parse().ok()).unwrap_or(zysim_common::DEFAULT_SEED);
    let (shard, shards) = argument(args, "--shard")
        .and_then(|s| s.split_once('/'))
        .map(|(a, b)| (a.parse::<u64>().unwrap(), b.parse::<u64>().unwrap()))
        .unwrap_or((0, 1));
    let runs: u64 = argument(args, "--runs").and_then(|s| s.parse().ok()).unwrap_or(100);
    let out = argument(args, "--out").expect("--out").to_string();
    let keep_events = argument(args, "--events").is_some();
    let mut executions = 0u64;
    let mut workloads = BTreeSet::new();
    let mut outcomes = BTreeSet::new();
    let mut probes: BTreeMap<String, u64> = BTreeMap::new();
    let mut samples = Vec::new();
    let mut violations = Vec::new();
    let mut event_logs = Vec::new();
    let mut frames_total = 0u64;
    let mut index = shard;
    while index < runs {
        let seed_i = mix(seed, ENGINE + 100, index);
        let generated = lsp::generate(seed_i, tier == "thorough");
        let key = mix(seed_i, 77, 0);
        let run_dir = zysim_common::run_directory("lsp", seed, index);
        workloads.insert(zysim_common::fnv1a(generated.workload.abstract_text().as_bytes()));
        for schedule in 0..generated.schedules.max(1) {
            let mut workload = generated.workload.clone();
            if schedule > 0 {
                workload.scheduler = workload.scheduler.reseeded(mix(seed_i, 55, schedule));
            }
            let record = run_lsp_child(&run_dir, key, &workload);
            executions += 1;
            let events: Vec<Value> = record["events"].as_array().cloned().unwrap_or_default();
            let mut outcome_text = String::new();
            for event in &events {
                if event["kind"] == "lsp-frames" {
                    frames_total += event["frames"].as_array().map(|f| f.len() as u64).unwrap_or(0);
                }
                if event["kind"] == "lsp-judgement" {
                    for (name, count) in event["probes"].as_object().into_iter().flatten() {
                        *probes.entry(format!("lsp:{name}")).or_default() += count.as_u64().unwrap_or(0);
                    }
                    outcome_text = event["outcome"].as_str().unwrap_or("").to_string();
                }
            }
            *probes.entry("lsp:shard_lock_contended".into()).or_default() += record["contended"].as_u64().unwrap_or(0);
            outcomes.insert(zysim_common::fnv1a(format!("{}|{outcome_text}", generated.workload.abstract_text()).as_bytes()));
            if samples.len() < 2 && index % 5 == 1 && schedule == 0 {
                samples.push(json!({"index": index, "seed": seed_i.to_string(), "workload": workload.to_json(), "outcomes": outcome_text}));
            }
            if keep_events {
                event_logs.push(json!({"index": index, "schedule": schedule, "events": events, "failure": record["failure"]}));
            }
            if let Some((class, message)) = verdict_lsp(&record) {
                if violations.len() < 4 {
                    let minimal = minimise_lsp(&run_dir, key, &workload, &class, 120);
                    let confirm = run_lsp_child(&run_dir, key, &minimal);
                    let (final_workload, final_message, final_record) = match verdict_lsp(&confirm) {
                        | Some((confirmed, message)) if confirmed == class => (minimal, message, confirm),
                        | _ => (workload.clone(), message, record.clone()),
                    };
                    violations.push(json!({
                        "property": "C17", "engine": "concsim", "family": "lsp", "class": class, "seed": seed.to_string(),
                        "run_index": index, "run_seed": seed_i.to_string(), "key": key.to_string(),
                        "run_dir": run_dir.to_string_lossy(),
                        "workload": final_workload.to_json(), "message": final_message,
                        "script": final_workload.bursts.iter().map(|b| b.iter().map(|m| m.label()).collect::<Vec<_>>()).collect::<Vec<_>>(),
                        "trace": final_record["events"],
                    }));
                } else {
                    violations.push(json!({"property": "C17", "class": class, "run_index": index, "unminimised": true}));
                }
                break;
            }
        }
        let _ = std::fs::remove_dir_all(&run_dir);
        index += shards;
    }
    let record = json!({
        "shard": shard, "shards": shards, "tier": tier, "seed": seed.to_string(),
        "executions": executions, "workloads": workloads.iter().map(|w| w.to_string()).collect::<Vec<_>>(),
        "outcomes": outcomes.iter().map(|w| w.to_string()).collect::<Vec<_>>(),
        "probes": probes, "samples": samples, "violations": violations, "logical_steps": frames_total,
        "event_logs": event_logs,
    });
    std::fs::write(&out, serde_json::to_vec(&record).unwrap()).expect("write shard record");
}

fn replay_lsp(value: &Value) {
    let workload = lsp::LspWorkload::from_json(&value["workload"]).expect("replay file: lsp workload");
    let key: u64 = value["key"].as_str().and_then(|s| s.parse().ok()).unwrap_or(1);
    let run_dir = PathBuf::from(value["run_dir"].as_str().unwrap_or("/dev/shm/zysim/replay-lsp"));
    let _ = std::fs::remove_dir_all(&run_dir);
    std::fs::create_dir_all(&run_dir).expect("create scratch directory");
    let record = run_lsp_child(&run_dir, key, &workload);
    let _ = std::fs::remove_dir_all(&run_dir);
    for (b, burst) in workload.bursts.iter().enumerate() {
        println!("burst {b}: {}", burst.iter().map(|m| m.label()).collect::<Vec<_>>().join(" ; "));
    }
    for event in record["events"].as_array().into_iter().flatten() {
        if event["kind"] == "lsp-frames" {
            for frame in event["frames"].as_array().into_iter().flatten() {
                println!("{frame}");
            }
        }
    }
    match verdict_lsp(&record) {
        | Some((class, message)) => {
            println!("{message}");
            println!("REPRODUCED property=C17 class={class}");
            let expected = value["class"].as_str().unwrap_or(&class).to_string();
            std::process::exit(if expected == class { 1 } else { 3 });
        }
        | None => {
            println!("NOT-REPRODUCED");
            std::process::exit(0);
        }
    }
}

fn replay(path: &str) {
    let text = std::fs::read_to_string(path).expect("read replay file");
    let value: Value = serde_json::from_str(&text).expect("parse replay file");
    if value["workload"]["family"] == "lsp" {
        return replay_lsp(&value);
    }
    let workload = Workload::from_json(&value["workload"]).expect("replay file: workload");
    let key: u64 = value["key"].as_str().and_then(|s| s.parse().ok()).unwrap_or(1);
    let run_dir = PathBuf::from(value["run_dir"].as_str().unwrap_or("/dev/shm/zysim/replay"));
    let _ = std::fs::remove_dir_all(&run_dir);
    std::fs::create_dir_all(&run_dir).expect("create scratch directory");
    let record = run_child(&run_dir, key, &workload);
    let _ = std::fs::remove_dir_all(&run_dir);
    for event in record["events"].as_array().into_iter().flatten() {
        if event["kind"] != "expected" {
            println!("{event}");
        }
    }
    match verdict(&record) {
        | Some((class, message)) => {
            println!("{message}");
            println!("REPRODUCED property=C17 class={class}");
            let expected = value["class"].as_str().unwrap_or(&class).to_string();
            std::process::exit(if expected == class { 1 } else { 3 });
        }
        | None => {
            println!("NOT-REPRODUCED");
            std::process::exit(0);
        }
    }
}
