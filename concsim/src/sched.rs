//! A PCT-style scheduler for one-shot executions.
//!
//! shuttle's `PctScheduler` learns the length of an execution in its first iteration and only
//! then places priority change points; used for a single iteration (one execution per forked
//! process, as here) it keeps the main task at the top priority and never changes a priority.
//! This scheduler takes the horizon as a parameter instead: every task - the main task
//! included - gets a seeded random priority, and `depth - 1` change points are drawn uniformly
//! from `1..=horizon`; at a change point (and whenever a task yields) the running task drops
//! below all others.  One (seed, depth, horizon) triple is one schedule.

use shuttle::scheduler::{Schedule, Scheduler, Task, TaskId};
use std::collections::HashMap;
use zysim_common::Rng;

pub struct HorizonPct {
    seed: u64,
    started: bool,
    rng: Rng,
    data: Rng,
    priorities: HashMap<TaskId, u64>,
    lowest: u64,
    change_points: Vec<usize>,
    steps: usize,
}

impl HorizonPct {
    pub fn new(seed: u64, depth: usize, horizon: usize) -> Self {
        let mut rng = Rng::new(zysim_common::mix(seed, 41, 0));
        let change_points = (1..depth.max(1)).map(|_| 1 + rng.below(horizon.max(1))).collect();
        Self {
            seed,
            started: false,
            data: Rng::new(zysim_common::mix(seed, 41, 1)),
            rng,
            priorities: HashMap::new(),
            lowest: 1 << 40,
            change_points,
            steps: 0,
        }
    }

    fn demote(&mut self, task: TaskId) {
        self.lowest += 1;
        self.priorities.insert(task, self.lowest);
    }
}

impl Scheduler for HorizonPct {
    fn new_execution(&mut self) -> Option<Schedule> {
        if self.started {
            return None;
        }
        self.started = true;
        Some(Schedule::new(self.seed))
    }

    fn next_task(&mut self, runnable: &[&Task], current: Option<TaskId>, is_yielding: bool) -> Option<TaskId> {
        // tasks are met in creation order, so the draw sequence is a function of the execution
        let mut ids: Vec<TaskId> = runnable.iter().map(|task| task.id()).collect();
        ids.sort();
        for id in ids {
            if !self.priorities.contains_key(&id) {
                let priority = self.rng.next_u64() >> 32;
                self.priorities.insert(id, priority);
            }
        }
        if runnable.len() > 1 {
            self.steps += 1;
            if let Some(current) = current {
                if is_yielding || self.change_points.contains(&self.steps) {
                    self.demote(current);
                }
            }
        }
        runnable.iter().map(|task| task.id()).min_by_key(|id| (self.priorities[id], usize::from(*id)))
    }

    fn next_u64(&mut self) -> u64 {
        self.data.next_u64()
    }
}
