//! Workloads of one concurrent execution: per-task scripts drawn from one seed.

use simcore::content::{self, Palette};
use simcore::ops::{Op, Query, apply_to_model};
use simcore::world::{Model, SLOT_A, SLOT_A_SIG, SLOT_B, SLOT_C, SLOT_INPUT, SLOT_MAIN, SLOT_ROOT, SLOTS, Status};
use zysim_common::{Rng, Value, json};

#[derive(Clone, Debug)]
pub enum ReaderScript {
    /// what a cajun worker computes: `ProjectState::load_from_session` + diagnostics
    Load,
    Queries(Vec<Query>),
}

impl ReaderScript {
    pub fn to_json(&self) -> Value {
        match self {
            | ReaderScript::Load => json!("load"),
            | ReaderScript::Queries(queries) => json!(queries.iter().map(|q| q.label()).collect::<Vec<_>>()),
        }
    }
    pub fn from_json(value: &Value) -> Option<Self> {
        if value == "load" {
            return Some(ReaderScript::Load);
        }
        Some(ReaderScript::Queries(
            value.as_array()?.iter().map(|q| Query::parse(q.as_str()?)).collect::<Option<Vec<_>>>()?,
        ))
    }
}

#[derive(Clone, Debug)]
pub struct OwnerStep {
    pub sleeps: u8,
    pub op: Op,
}

#[derive(Clone, Debug)]
pub struct ReaderStep {
    pub sleeps: u8,
    pub root: usize,
    pub script: ReaderScript,
}

#[derive(Clone, Copy, Debug)]
pub enum SchedulerChoice {
    Random { seed: u64 },
    Pct { seed: u64, depth: usize },
    /// `sched::HorizonPct`: seeded priorities for every task, change points within `horizon` steps
    Horizon { seed: u64, depth: usize, horizon: usize },
}

impl SchedulerChoice {
    pub fn reseeded(self, seed: u64) -> Self {
        match self {
            | SchedulerChoice::Random { .. } => SchedulerChoice::Random { seed },
            | SchedulerChoice::Pct { depth, .. } => SchedulerChoice::Pct { seed, depth },
            | SchedulerChoice::Horizon { depth, horizon, .. } => SchedulerChoice::Horizon { seed, depth, horizon },
        }
    }
    pub fn to_json(self) -> Value {
        match self {
            | SchedulerChoice::Random { seed } => json!({"kind": "random", "seed": seed.to_string()}),
            | SchedulerChoice::Pct { seed, depth } => json!({"kind": "pct", "seed": seed.to_string(), "depth": depth}),
            | SchedulerChoice::Horizon { seed, depth, horizon } => {
                json!({"kind": "horizon-pct", "seed": seed.to_string(), "depth": depth, "horizon": horizon})
            }
        }
    }
    pub fn from_json(value: &Value) -> Option<Self> {
        let seed = value["seed"].as_str()?.parse().ok()?;
        Some(match value["kind"].as_str()? {
            | "pct" => SchedulerChoice::Pct { seed, depth: value["depth"].as_u64()? as usize },
            | "horizon-pct" => SchedulerChoice::Horizon {
                seed,
                depth: value["depth"].as_u64()? as usize,
                horizon: value["horizon"].as_u64()? as usize,
            },
            | _ => SchedulerChoice::Random { seed },
        })
    }
}

#[derive(Clone, Debug)]
pub struct Workload {
    pub setup: Vec<Op>,
    pub owner: Vec<OwnerStep>,
    pub readers: Vec<Vec<ReaderStep>>,
    pub allocators: Vec<u8>,
    pub checkers: Vec<Vec<usize>>,
    pub roots: Vec<usize>,
    pub scheduler: SchedulerChoice,
}

pub struct Generated {
    pub workload: Workload,
    pub schedules: u64,
}

/// During the concurrent phase the owner's *disk* writes target only slots that are
/// certainly in the input table: a lazily read file has no revision, and whether such a
/// read "mixes revisions" is not something C17 states.
pub fn concurrent_edit_allowed(model: &Model, op: &Op) -> bool {
    match op {
        | Op::WriteRefresh { slot, .. } | Op::DeleteRefresh { slot } | Op::Refresh { slot } => {
            matches!(model.slots[*slot].status, Status::Touched(_))
        }
        | Op::SetOverlay { .. } | Op::ClearOverlay { .. } | Op::Evict | Op::Ask { .. } => true,
        | _ => false,
    }
}

impl Workload {
    pub fn to_json(&self) -> Value {
        json!({
            "setup": self.setup.iter().map(Op::to_json).collect::<Vec<_>>(),
            "owner": self.owner.iter().map(|s| json!({"sleeps": s.sleeps, "op": s.op.to_json()})).collect::<Vec<_>>(),
            "readers": self.readers.iter().map(|steps| steps.iter().map(|s| json!({"sleeps": s.sleeps, "root": s.root, "script": s.script.to_json()})).collect::<Vec<_>>()).collect::<Vec<_>>(),
            "allocators": self.allocators,
            "checkers": self.checkers,
            "roots": self.roots,
            "scheduler": self.scheduler.to_json(),
        })
    }

    pub fn from_json(value: &Value) -> Option<Self> {
        Some(Self {
            setup: value["setup"].as_array()?.iter().map(Op::from_json).collect::<Option<Vec<_>>>()?,
            owner: value["owner"]
                .as_array()?
                .iter()
                .map(|s| Some(OwnerStep { sleeps: s["sleeps"].as_u64()? as u8, op: Op::from_json(&s["op"])? }))
                .collect::<Option<Vec<_>>>()?,
            readers: value["readers"]
                .as_array()?
                .iter()
                .map(|steps| {
                    steps
                        .as_array()?
                        .iter()
                        .map(|s| {
                            Some(ReaderStep {
                                sleeps: s["sleeps"].as_u64()? as u8,
                                root: s["root"].as_u64()? as usize,
                                script: ReaderScript::from_json(&s["script"])?,
                            })
                        })
                        .collect::<Option<Vec<_>>>()
                })
                .collect::<Option<Vec<_>>>()?,
            allocators: value["allocators"].as_array()?.iter().map(|c| c.as_u64().map(|c| c as u8)).collect::<Option<Vec<_>>>()?,
            checkers: value["checkers"]
                .as_array()?
                .iter()
                .map(|roots| roots.as_array()?.iter().map(|r| r.as_u64().map(|r| r as usize)).collect::<Option<Vec<_>>>())
                .collect::<Option<Vec<_>>>()?,
            roots: value["roots"].as_array()?.iter().map(|r| r.as_u64().map(|r| r as usize)).collect::<Option<Vec<_>>>()?,
            scheduler: SchedulerChoice::from_json(&value["scheduler"])?,
        })
    }

    /// Abstract shape (distinctness measure).
    pub fn abstract_text(&self) -> String {
        format!(
            "{}|{}|{}|{:?}|{:?}",
            self.setup.iter().map(|op| op.abstract_label()).collect::<Vec<_>>().join(","),
            self.owner.iter().map(|s| s.op.abstract_label()).collect::<Vec<_>>().join(","),
            self.readers
                .iter()
                .map(|steps| steps.iter().map(|s| format!("{}:{}", SLOTS[s.root], s.script.to_json())).collect::<Vec<_>>().join(","))
                .collect::<Vec<_>>()
                .join(";"),
            self.allocators,
            self.checkers
        )
    }

    /// Smaller workloads to try while minimising.
    pub fn reductions(&self) -> Vec<Workload> {
        let mut out = Vec::new();
        for index in 0..self.readers.len() {
            let mut w = self.clone();
            w.readers.remove(index);
            out.push(w);
        }
        if !self.allocators.is_empty() {
            let mut w = self.clone();
            w.allocators.clear();
            out.push(w);
        }
        for index in 0..self.checkers.len() {
            let mut w = self.clone();
            w.checkers.remove(index);
            out.push(w);
        }
        for index in 0..self.owner.len() {
            let mut w = self.clone();
            w.owner.remove(index);
            out.push(w);
        }
        for reader in 0..self.readers.len() {
            for index in 0..self.readers[reader].len() {
                if self.readers[reader].len() > 1 {
                    let mut w = self.clone();
                    w.readers[reader].remove(index);
                    out.push(w);
                }
            }
        }
        for checker in 0..self.checkers.len() {
            for index in 0..self.checkers[checker].len() {
                if self.checkers[checker].len() > 1 {
                    let mut w = self.clone();
                    w.checkers[checker].remove(index);
                    out.push(w);
                }
            }
        }
        for index in 0..self.setup.len() {
            let mut w = self.clone();
            w.setup.remove(index);
            out.push(w);
        }
        for reader in 0..self.readers.len() {
            for index in 0..self.readers[reader].len() {
                if let ReaderScript::Queries(queries) = &self.readers[reader][index].script {
                    if queries.len() > 1 {
                        let mut w = self.clone();
                        w.readers[reader][index].script = ReaderScript::Queries(vec![queries[0].clone()]);
                        out.push(w);
                    }
                }
            }
        }
        out
    }
}

pub fn generate(seed: u64, thorough: bool) -> Generated {
    let mut rng = Rng::new(seed);
    // world: 3-5 slots
    let mut active = vec![SLOT_ROOT];
    let mut others = vec![SLOT_A, SLOT_B, SLOT_C, SLOT_A_SIG, SLOT_MAIN, SLOT_INPUT];
    rng.shuffle(&mut others);
    active.extend(others.into_iter().take(rng.range(2, 4)));
    if active.contains(&SLOT_A_SIG) && !active.contains(&SLOT_A) {
        active.push(SLOT_A);
    }
    let allow_exec = rng.chance(1, 6);
    let palette = Palette { slots: &active, symlinks: false, allow_exec, allow_missing: true };
    let mut roots = vec![SLOT_ROOT];
    let candidates: Vec<usize> = active.iter().copied().filter(|s| *s != SLOT_ROOT && *s != SLOT_INPUT).collect();
    if !candidates.is_empty() && rng.chance(1, 2) {
        roots.push(*rng.pick(&candidates));
    }
    let mut model = Model::new(false);
    let mut setup = Vec::new();
    let mut push = |ops: &mut Vec<Op>, model: &mut Model, op: Op| {
        if !op.allowed(model) {
            return;
        }
        match &op {
            | Op::Ask { root, .. } | Op::AskSnapshot { root, .. } => {
                model.name(*root);
                model.after_query();
            }
            | Op::Evict => {}
            | mutating => {
                let slot = mutating.slot().unwrap();
                apply_to_model(model, mutating);
                if !matches!(mutating, Op::SilentWrite { .. } | Op::SilentDelete { .. }) {
                    model.name(slot);
                }
            }
        }
        ops.push(op);
    };
    // set-up: populate the disk, make the root import something, refresh some slots explicitly
    for slot in active.iter().copied() {
        if slot == SLOT_INPUT {
            continue;
        }
        if rng.chance(3, 4) {
            let content = if slot == SLOT_ROOT && rng.chance(2, 3) {
                let targets: Vec<usize> = active.iter().copied().filter(|s| *s != SLOT_ROOT && *s != SLOT_INPUT).collect();
                if targets.is_empty() {
                    content::generate(&mut rng, slot, &palette)
                } else {
                    content::importing(&[(*rng.pick(&targets), content::Spelling::Plain)])
                }
            } else {
                content::generate(&mut rng, slot, &palette)
            };
            push(&mut setup, &mut model, Op::SilentWrite { slot, content });
        }
    }
    for slot in active.iter().copied() {
        if slot != SLOT_INPUT && rng.chance(1, 2) {
            push(&mut setup, &mut model, Op::Refresh { slot });
        }
    }
    if rng.chance(1, 2) {
        let root = *rng.pick(&roots);
        push(&mut setup, &mut model, Op::SetOverlay { slot: root, content: content::generate(&mut rng, root, &palette) });
    }
    if rng.chance(1, 3) {
        push(&mut setup, &mut model, Op::Ask { root: *rng.pick(&roots), query: Query::Analyze });
    }
    // owner script
    let mut owner = Vec::new();
    let edits = rng.range(1, 6);
    let mut shadow = model.clone();
    for _ in 0..edits {
        let slot = *rng.pick(&active);
        let op = match rng.below(10) {
            | 0..=4 => Op::SetOverlay { slot, content: content::generate(&mut rng, slot, &palette) },
            | 5 => Op::ClearOverlay { slot },
            | 6 | 7 if slot != SLOT_INPUT => Op::WriteRefresh { slot, content: content::generate(&mut rng, slot, &palette) },
            | 8 if slot != SLOT_INPUT => Op::DeleteRefresh { slot },
            | _ => {
                if rng.chance(1, 2) {
                    Op::Evict
                } else {
                    Op::Ask { root: *rng.pick(&roots), query: Query::Analyze }
                }
            }
        };
        if !op.allowed(&shadow) || !concurrent_edit_allowed(&shadow, &op) {
            continue;
        }
        let mut sink = Vec::new();
        push(&mut sink, &mut shadow, op.clone());
        let span = if rng.chance(1, 3) { 40 } else { 8 };
        owner.push(OwnerStep { sleeps: rng.below(span) as u8, op });
    }
    // close and reopen an open root document (the revision a worker read may come back)
    if rng.chance(1, 4) {
        let open_roots: Vec<usize> = roots.iter().copied().filter(|r| shadow.slots[*r].overlay.is_some()).collect();
        if let Some(root) = open_roots.first().copied() {
            let reopen = vec![
                Op::ClearOverlay { slot: root },
                Op::SetOverlay { slot: root, content: content::generate(&mut rng, root, &palette) },
            ];
            for op in reopen {
                let mut sink = Vec::new();
                push(&mut sink, &mut shadow, op.clone());
                owner.push(OwnerStep { sleeps: rng.below(6) as u8, op });
            }
        }
    }
    // readers: often the same root, so that one blocks on the other's in-flight query
    let reader_count = rng.range(1, 3);
    let shared_root = *rng.pick(&roots);
    let query_pool = [
        Query::Graph, Query::Analyze, Query::Analyze, Query::Facts, Query::MaterializeArena, Query::Execute,
        Query::Reports, Query::Coverage, Query::CheckedProgram,
    ];
    let mut readers = Vec::new();
    for _ in 0..reader_count {
        let steps = rng.range(1, 3);
        let mut script = Vec::new();
        for _ in 0..steps {
            let root = if rng.chance(2, 3) { shared_root } else { *rng.pick(&roots) };
            let what = if rng.chance(1, 2) {
                ReaderScript::Load
            } else {
                let count = rng.range(1, 3);
                ReaderScript::Queries((0..count).map(|_| rng.pick(&query_pool).clone()).collect())
            };
            script.push(ReaderStep { sleeps: rng.below(6) as u8, root, script: what });
        }
        readers.push(script);
    }
    let allocators: Vec<u8> = (0..rng.below(3)).map(|_| rng.range(1, 4) as u8).collect();
    let checkers: Vec<Vec<usize>> = (0..rng.below(3)).map(|_| (0..rng.range(1, 2)).map(|_| *rng.pick(&roots)).collect()).collect();
    let scheduler = if rng.chance(1, 3) {
        SchedulerChoice::Horizon {
            seed: rng.next_u64(),
            depth: rng.range(1, 4),
            horizon: *rng.pick(&[30, 100, 300, 1000, 3000, 10000, 30000]),
        }
    } else {
        SchedulerChoice::Random { seed: rng.next_u64() }
    };
    let schedules = if rng.chance(1, 5) { if thorough { 16 } else { 8 } } else { 1 };
    Generated { workload: Workload { setup, owner, readers, allocators, checkers, roots, scheduler }, schedules }
}
