#!/usr/bin/env python3
"""Apply a seeded change to /repo, run the named checks, undo the change.

usage: try_mutant.py <patch.diff> <check-id>[:tier] ...     (env VERIF_RUNS etc. are passed through)
Prints one line per check: id, exit code, seconds, first VIOLATION/HARNESS line."""
import subprocess
import sys
import time

patch = sys.argv[1]
checks = sys.argv[2:]
status = subprocess.run(["git", "-C", "/repo", "status", "--porcelain"], capture_output=True, text=True).stdout
if status.strip():
    sys.exit(f"/repo is not clean:\n{status}")
applied = subprocess.run(["git", "-C", "/repo", "apply", patch])
if applied.returncode != 0:
    sys.exit("patch does not apply")
try:
    for check in checks:
        ident, _, tier = check.partition(":")
        started = time.time()
        proc = subprocess.run(["/verif/check", ident, tier or "quick"], capture_output=True, text=True, cwd="/verif")
        lines = [l for l in proc.stdout.splitlines() if l.startswith(("VIOLATION", "HARNESS", "KNOWN"))]
        detail = ""
        if lines:
            index = proc.stdout.splitlines().index(lines[0])
            detail = " | ".join(proc.stdout.splitlines()[index:index + 2])[:700]
        print(f"{ident}: exit={proc.returncode} {time.time() - started:.0f}s {detail}", flush=True)
finally:
    subprocess.run(["git", "-C", "/repo", "checkout", "--", "."])
    subprocess.run(["git", "-C", "/repo", "clean", "-fdq", "--", "lang", "editor", "cli", "tui"])
