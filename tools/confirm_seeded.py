#!/usr/bin/env python3
"""Confirm a sub-agent's seeded change in its scratch worktree:
   (1) the patch applies and the existing suite passes exactly the 754 baseline tests,
   (2) the demonstration fails with the patch, (3) passes without it.
usage: confirm_seeded.py <worktree> <N> <out.json>"""
import json, re, subprocess, sys, os
wt, n, out = sys.argv[1], sys.argv[2], sys.argv[3]
seeded = os.path.join(wt, "SEEDED", n)
baseline = set(json.load(open("/root/.vp/BASELINE.json"))["stable_pass"])
def sh(cmd, **kw):
    return subprocess.run(cmd, shell=True, cwd=wt, capture_output=True, text=True, **kw)
def clean():
    sh("git checkout -- . && git clean -fdq -e SEEDED -e target")
result = {"worktree": wt, "change": n}
clean()
applied = sh(f"git apply SEEDED/{n}/patch.diff")
result["patch_applies"] = applied.returncode == 0
suite = sh("CARGO_NET_OFFLINE=true cargo nextest run --workspace --offline --no-fail-fast --test-threads 6 2>&1")
passed = set(x.replace(" ", "::", 1) for x in re.findall(r"^\s+PASS \[[^\]]*\] \(\s*\d+/\d+\) (.*)$", suite.stdout, re.M))
result["suite_passed"] = len(passed)
result["suite_missing_from_baseline"] = sorted(baseline - passed)[:10]
result["suite_ok"] = baseline <= passed
demo_with = sh(f"bash SEEDED/{n}/run_demo.sh 2>&1")
result["demo_exit_with_patch"] = demo_with.returncode
result["demo_tail_with_patch"] = demo_with.stdout[-600:]
clean()
demo_without = sh(f"bash SEEDED/{n}/run_demo.sh 2>&1")
result["demo_exit_without_patch"] = demo_without.returncode
clean()
result["confirmed"] = bool(result["patch_applies"] and result["suite_ok"] and demo_with.returncode != 0 and demo_without.returncode == 0)
json.dump(result, open(out, "w"), indent=1)
print(json.dumps({k: result[k] for k in ("change", "patch_applies", "suite_passed", "suite_ok", "demo_exit_with_patch", "demo_exit_without_patch", "confirmed")}))
