//! Simulated standard input and output: faults sit at *byte offsets* of the stream, so
//! what an operation observes does not depend on how the code under test sizes its
//! buffers or how often it calls `read`/`write`.

use std::io::{self, Read, Write};
use zysim_common::{Rng, Value, json};

#[derive(Clone, Copy, Debug, PartialEq, Eq)]
pub enum ErrKind {
    Other,
    BrokenPipe,
    PermissionDenied,
    InvalidData,
    TimedOut,
    NotConnected,
}

impl ErrKind {
    pub const ALL: [ErrKind; 6] = [
        ErrKind::Other,
        ErrKind::BrokenPipe,
        ErrKind::PermissionDenied,
        ErrKind::InvalidData,
        ErrKind::TimedOut,
        ErrKind::NotConnected,
    ];
    pub fn io(self) -> io::Error {
        let kind = match self {
            | ErrKind::Other => io::ErrorKind::Other,
            | ErrKind::BrokenPipe => io::ErrorKind::BrokenPipe,
            | ErrKind::PermissionDenied => io::ErrorKind::PermissionDenied,
            | ErrKind::InvalidData => io::ErrorKind::InvalidData,
            | ErrKind::TimedOut => io::ErrorKind::TimedOut,
            | ErrKind::NotConnected => io::ErrorKind::NotConnected,
        };
        io::Error::new(kind, "injected device fault")
    }
    pub fn label(self) -> &'static str {
        match self {
            | ErrKind::Other => "other",
            | ErrKind::BrokenPipe => "broken-pipe",
            | ErrKind::PermissionDenied => "permission-denied",
            | ErrKind::InvalidData => "invalid-data",
            | ErrKind::TimedOut => "timed-out",
            | ErrKind::NotConnected => "not-connected",
        }
    }
    fn parse(text: &str) -> Option<Self> {
        ErrKind::ALL.iter().copied().find(|k| k.label() == text)
    }
}

#[derive(Clone, Copy, Debug, PartialEq, Eq)]
pub enum InFault {
    /// `ErrorKind::Interrupted`, once: must be invisible
    Interrupted,
    HardOnce(ErrKind),
    HardForever(ErrKind),
}

impl InFault {
    pub fn all() -> Vec<InFault> {
        let mut all = vec![InFault::Interrupted];
        for kind in [ErrKind::Other, ErrKind::BrokenPipe, ErrKind::InvalidData, ErrKind::NotConnected] {
            all.push(InFault::HardOnce(kind));
        }
        all.push(InFault::HardForever(ErrKind::Other));
        all.push(InFault::HardForever(ErrKind::PermissionDenied));
        all
    }
    pub fn label(self) -> String {
        match self {
            | InFault::Interrupted => "interrupted".into(),
            | InFault::HardOnce(kind) => format!("hard-once:{}", kind.label()),
            | InFault::HardForever(kind) => format!("hard-forever:{}", kind.label()),
        }
    }
    fn parse(text: &str) -> Option<Self> {
        if text == "interrupted" {
            return Some(InFault::Interrupted);
        }
        let (head, kind) = text.split_once(':')?;
        let kind = ErrKind::parse(kind)?;
        match head {
            | "hard-once" => Some(InFault::HardOnce(kind)),
            | "hard-forever" => Some(InFault::HardForever(kind)),
            | _ => None,
        }
    }
}

#[derive(Clone, Copy, Debug, PartialEq, Eq)]
pub enum OutFault {
    Interrupted,
    /// `write` returns `Ok(0)` once (`write_all` must report `WriteZero`)
    Zero,
    HardOnce(ErrKind),
    HardForever(ErrKind),
}

impl OutFault {
    pub fn all() -> Vec<OutFault> {
        let mut all = vec![OutFault::Interrupted, OutFault::Zero];
        for kind in [ErrKind::Other, ErrKind::BrokenPipe, ErrKind::TimedOut] {
            all.push(OutFault::HardOnce(kind));
        }
        all.push(OutFault::HardForever(ErrKind::BrokenPipe));
        all
    }
    pub fn label(self) -> String {
        match self {
            | OutFault::Interrupted => "interrupted".into(),
            | OutFault::Zero => "zero".into(),
            | OutFault::HardOnce(kind) => format!("hard-once:{}", kind.label()),
            | OutFault::HardForever(kind) => format!("hard-forever:{}", kind.label()),
        }
    }
    fn parse(text: &str) -> Option<Self> {
        match text {
            | "interrupted" => return Some(OutFault::Interrupted),
            | "zero" => return Some(OutFault::Zero),
            | _ => {}
        }
        let (head, kind) = text.split_once(':')?;
        let kind = ErrKind::parse(kind)?;
        match head {
            | "hard-once" => Some(OutFault::HardOnce(kind)),
            | "hard-forever" => Some(OutFault::HardForever(kind)),
            | _ => None,
        }
    }
}

/// A fault at a byte offset of a real file (injected by the armed `zysim` shim).
#[derive(Clone, Copy, Debug, PartialEq, Eq)]
pub enum FileFault {
    /// EINTR once: must be invisible
    Interrupted,
    /// a hard errno once
    HardOnce(i32),
    /// a hard errno for ever
    HardForever(i32),
}

pub const EIO: i32 = 5;
pub const EACCES: i32 = 13;
pub const ENOSPC: i32 = 28;
pub const EPIPE: i32 = 32;

impl FileFault {
    pub fn all_read() -> Vec<FileFault> {
        vec![FileFault::Interrupted, FileFault::HardOnce(EIO), FileFault::HardForever(EACCES)]
    }
    pub fn all_write() -> Vec<FileFault> {
        vec![FileFault::Interrupted, FileFault::HardOnce(EIO), FileFault::HardOnce(EPIPE), FileFault::HardForever(ENOSPC)]
    }
    pub fn label(self) -> String {
        match self {
            | FileFault::Interrupted => "eintr".into(),
            | FileFault::HardOnce(errno) => format!("once:{errno}"),
            | FileFault::HardForever(errno) => format!("forever:{errno}"),
        }
    }
    fn parse(text: &str) -> Option<Self> {
        if text == "eintr" {
            return Some(FileFault::Interrupted);
        }
        let (head, errno) = text.split_once(':')?;
        let errno: i32 = errno.parse().ok()?;
        match head {
            | "once" => Some(FileFault::HardOnce(errno)),
            | "forever" => Some(FileFault::HardForever(errno)),
            | _ => None,
        }
    }
    /// (kind, errno) as the shim wants them
    pub fn shim(self) -> (i32, i32) {
        match self {
            | FileFault::Interrupted => (0, 4),
            | FileFault::HardOnce(errno) => (1, errno),
            | FileFault::HardForever(errno) => (2, errno),
        }
    }
}

/// The fault plan of one execution.
#[derive(Clone, Debug, PartialEq)]
pub struct Plan {
    /// (file name in the scratch directory, is_write, byte offset, fault)
    pub file_faults: Vec<(String, bool, usize, FileFault)>,
    /// (byte offset of stdin, fault): fires when the stream position reaches the offset
    pub in_faults: Vec<(usize, InFault)>,
    /// stdin ends here although more data exists
    pub early_eof: Option<usize>,
    /// (byte offset of stdout, fault)
    pub out_faults: Vec<(usize, OutFault)>,
    /// every `flush` fails once this many bytes have been accepted
    pub flush_fails_from: Option<(usize, ErrKind)>,
    /// largest transfer per `read` / `write` call (short transfers), 0 = unlimited
    pub in_chunk: usize,
    pub out_chunk: usize,
    /// capacity of the `BufReader` standing in for the locked stdin
    pub in_buffer: usize,
}

impl Plan {
    pub fn fault_free(rng: &mut Rng) -> Self {
        Self {
            file_faults: vec![],
            in_faults: vec![],
            early_eof: None,
            out_faults: vec![],
            flush_fails_from: None,
            in_chunk: 0,
            out_chunk: 0,
            in_buffer: *rng.pick(&[1usize, 3, 16, 8192]),
        }
    }
    pub fn is_empty(&self) -> bool {
        self.in_faults.is_empty()
            && self.early_eof.is_none()
            && self.out_faults.is_empty()
            && self.flush_fails_from.is_none()
            && self.file_faults.is_empty()
    }
    pub fn with_in_fault(&self, position: usize, fault: InFault) -> Self {
        let mut plan = self.clone();
        plan.in_faults.push((position, fault));
        plan
    }
    pub fn with_early_eof(&self, position: usize) -> Self {
        let mut plan = self.clone();
        plan.early_eof = Some(position);
        plan
    }
    pub fn with_out_fault(&self, position: usize, fault: OutFault) -> Self {
        let mut plan = self.clone();
        plan.out_faults.push((position, fault));
        plan
    }
    pub fn with_flush_failing_from(&self, position: usize) -> Self {
        let mut plan = self.clone();
        plan.flush_fails_from = Some((position, ErrKind::Other));
        plan
    }
    pub fn with_file_fault(&self, name: &str, write: bool, position: usize, fault: FileFault) -> Self {
        let mut plan = self.clone();
        plan.file_faults.push((name.to_string(), write, position, fault));
        plan
    }
    pub fn with_chunks(&self, chunk: usize) -> Self {
        let mut plan = self.clone();
        plan.in_chunk = chunk;
        plan.out_chunk = chunk;
        plan
    }
    pub fn random(rng: &mut Rng, in_len: usize, out_span: usize) -> Self {
        let mut plan = Plan::fault_free(rng);
        plan.in_chunk = *rng.pick(&[0usize, 0, 1, 2, 5]);
        plan.out_chunk = *rng.pick(&[0usize, 0, 1, 3, 9]);
        for _ in 0..rng.below(4) {
            let fault = *rng.pick(&InFault::all());
            plan.in_faults.push((rng.below(in_len + 1), fault));
        }
        for _ in 0..rng.below(4) {
            let fault = *rng.pick(&OutFault::all());
            plan.out_faults.push((rng.below(out_span.max(1)), fault));
        }
        if rng.chance(1, 6) {
            plan.early_eof = Some(rng.below(in_len + 1));
        }
        if rng.chance(1, 6) {
            plan.flush_fails_from = Some((rng.below(out_span.max(1)), *rng.pick(&ErrKind::ALL)));
        }
        for _ in 0..rng.below(3) {
            if rng.chance(1, 2) {
                let name = *rng.pick(&["in0.txt", "in1.txt"]);
                plan.file_faults.push((name.to_string(), false, rng.below(16), *rng.pick(&FileFault::all_read())));
            } else {
                let name = *rng.pick(&["out0.txt", "out1.txt"]);
                plan.file_faults.push((name.to_string(), true, rng.below(24), *rng.pick(&FileFault::all_write())));
            }
        }
        plan.in_faults.sort_by_key(|(position, _)| *position);
        plan.out_faults.sort_by_key(|(position, _)| *position);
        plan
    }
    pub fn simplifications(&self) -> Vec<Plan> {
        let mut out = Vec::new();
        for index in 0..self.in_faults.len() {
            let mut plan = self.clone();
            plan.in_faults.remove(index);
            out.push(plan);
        }
        for index in 0..self.out_faults.len() {
            let mut plan = self.clone();
            plan.out_faults.remove(index);
            out.push(plan);
        }
        for index in 0..self.file_faults.len() {
            let mut plan = self.clone();
            plan.file_faults.remove(index);
            out.push(plan);
        }
        if self.early_eof.is_some() {
            let mut plan = self.clone();
            plan.early_eof = None;
            out.push(plan);
        }
        if self.flush_fails_from.is_some() {
            let mut plan = self.clone();
            plan.flush_fails_from = None;
            out.push(plan);
        }
        if self.in_chunk != 0 || self.out_chunk != 0 {
            let mut plan = self.clone();
            plan.in_chunk = 0;
            plan.out_chunk = 0;
            out.push(plan);
        }
        out
    }
    pub fn to_json(&self) -> Value {
        json!({
            "file_faults": self.file_faults.iter().map(|(n, w, p, f)| json!([n, if *w { "w" } else { "r" }, p, f.label()])).collect::<Vec<_>>(),
            "in_faults": self.in_faults.iter().map(|(p, f)| json!([p, f.label()])).collect::<Vec<_>>(),
            "early_eof": self.early_eof,
            "out_faults": self.out_faults.iter().map(|(p, f)| json!([p, f.label()])).collect::<Vec<_>>(),
            "flush_fails_from": self.flush_fails_from.map(|(p, k)| json!([p, k.label()])),
            "in_chunk": self.in_chunk, "out_chunk": self.out_chunk, "in_buffer": self.in_buffer,
        })
    }
    pub fn from_json(value: &Value) -> Option<Self> {
        Some(Self {
            file_faults: value["file_faults"]
                .as_array()
                .map(|list| {
                    list.iter()
                        .map(|e| {
                            Some((
                                e[0].as_str()?.to_string(),
                                e[1].as_str()? == "w",
                                e[2].as_u64()? as usize,
                                FileFault::parse(e[3].as_str()?)?,
                            ))
                        })
                        .collect::<Option<Vec<_>>>()
                })
                .unwrap_or(Some(vec![]))?,
            in_faults: value["in_faults"]
                .as_array()?
                .iter()
                .map(|e| Some((e[0].as_u64()? as usize, InFault::parse(e[1].as_str()?)?)))
                .collect::<Option<Vec<_>>>()?,
            early_eof: value["early_eof"].as_u64().map(|p| p as usize),
            out_faults: value["out_faults"]
                .as_array()?
                .iter()
                .map(|e| Some((e[0].as_u64()? as usize, OutFault::parse(e[1].as_str()?)?)))
                .collect::<Option<Vec<_>>>()?,
            flush_fails_from: match &value["flush_fails_from"] {
                | Value::Array(entry) => Some((entry[0].as_u64()? as usize, ErrKind::parse(entry[1].as_str()?)?)),
                | _ => None,
            },
            in_chunk: value["in_chunk"].as_u64()? as usize,
            out_chunk: value["out_chunk"].as_u64()? as usize,
            in_buffer: value["in_buffer"].as_u64()? as usize,
        })
    }
}

/// Simulated standard input.
pub struct SimIn {
    data: Vec<u8>,
    position: usize,
    faults: Vec<(usize, InFault, bool)>,
    chunk: usize,
}

impl SimIn {
    pub fn new(data: &[u8], plan: &Plan) -> Self {
        let end = plan.early_eof.map(|p| p.min(data.len())).unwrap_or(data.len());
        let mut faults: Vec<(usize, InFault, bool)> = plan.in_faults.iter().map(|(p, f)| (*p, *f, false)).collect();
        faults.sort_by_key(|(p, _, _)| *p);
        Self { data: data[..end].to_vec(), position: 0, faults, chunk: plan.in_chunk }
    }
}

impl Read for SimIn {
    fn read(&mut self, buffer: &mut [u8]) -> io::Result<usize> {
        if buffer.is_empty() {
            return Ok(0);
        }
        // a pending fault exactly at the current position fires first
        for fault in self.faults.iter_mut() {
            if fault.0 == self.position {
                match fault.1 {
                    | InFault::Interrupted if !fault.2 => {
                        fault.2 = true;
                        return Err(io::Error::new(io::ErrorKind::Interrupted, "injected EINTR"));
                    }
                    | InFault::HardOnce(kind) if !fault.2 => {
                        fault.2 = true;
                        return Err(kind.io());
                    }
                    | InFault::HardForever(kind) => return Err(kind.io()),
                    | _ => {}
                }
            }
        }
        // deliver up to the next fault offset
        let next_fault = self
            .faults
            .iter()
            .filter(|(p, f, fired)| *p > self.position && (!*fired || matches!(f, InFault::HardForever(_))))
            .map(|(p, _, _)| *p)
            .min()
            .unwrap_or(usize::MAX);
        let mut count = buffer.len().min(self.data.len() - self.position).min(next_fault - self.position);
        if self.chunk > 0 {
            count = count.min(self.chunk);
        }
        buffer[..count].copy_from_slice(&self.data[self.position..self.position + count]);
        self.position += count;
        Ok(count)
    }
}

/// Simulated standard output (standard error shares it, as in the interpreter).
pub struct SimOut {
    pub accepted: Vec<u8>,
    faults: Vec<(usize, OutFault, bool)>,
    flush_fails_from: Option<(usize, ErrKind)>,
    chunk: usize,
}

impl SimOut {
    pub fn new(plan: &Plan) -> Self {
        let mut faults: Vec<(usize, OutFault, bool)> = plan.out_faults.iter().map(|(p, f)| (*p, *f, false)).collect();
        faults.sort_by_key(|(p, _, _)| *p);
        Self { accepted: Vec::new(), faults, flush_fails_from: plan.flush_fails_from, chunk: plan.out_chunk }
    }
}

impl Write for SimOut {
    fn write(&mut self, buffer: &[u8]) -> io::Result<usize> {
        if buffer.is_empty() {
            return Ok(0);
        }
        let position = self.accepted.len();
        for fault in self.faults.iter_mut() {
            if fault.0 == position {
                match fault.1 {
                    | OutFault::Interrupted if !fault.2 => {
                        fault.2 = true;
                        return Err(io::Error::new(io::ErrorKind::Interrupted, "injected EINTR"));
                    }
                    | OutFault::Zero if !fault.2 => {
                        fault.2 = true;
                        return Ok(0);
                    }
                    | OutFault::HardOnce(kind) if !fault.2 => {
                        fault.2 = true;
                        return Err(kind.io());
                    }
                    | OutFault::HardForever(kind) => return Err(kind.io()),
                    | _ => {}
                }
            }
        }
        let next_fault = self
            .faults
            .iter()
            .filter(|(p, f, fired)| *p > position && (!*fired || matches!(f, OutFault::HardForever(_))))
            .map(|(p, _, _)| *p)
            .min()
            .unwrap_or(usize::MAX);
        let mut count = buffer.len().min(next_fault - position);
        if self.chunk > 0 {
            count = count.min(self.chunk);
        }
        self.accepted.extend_from_slice(&buffer[..count]);
        Ok(count)
    }

    fn flush(&mut self) -> io::Result<()> {
        match self.flush_fails_from {
            | Some((from, kind)) if self.accepted.len() >= from => Err(kind.io()),
            | _ => Ok(()),
        }
    }
}
