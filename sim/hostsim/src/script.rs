//! I/O scripts, their seeded generation and their compilation to a Zydeco program in
//! continuation-passing style along the path the model predicts.

use crate::model::{Expectation, Outcome};
use std::path::PathBuf;
use zysim_common::{Rng, Value, json};

#[derive(Clone, Debug, PartialEq, Eq)]
pub enum PathSpec {
    /// an existing input file in the scratch directory
    In(String),
    /// an output file in the scratch directory (may pre-exist)
    Out(String),
    Missing,
    /// a directory
    Directory,
    /// a file inside a directory that does not exist
    MissingDir,
    DevFull,
    DevNull,
}

impl PathSpec {
    pub fn concrete(&self, dir: &PathBuf) -> String {
        match self {
            | PathSpec::In(name) | PathSpec::Out(name) => dir.join(name).to_string_lossy().into_owned(),
            | PathSpec::Missing => dir.join("missing.txt").to_string_lossy().into_owned(),
            | PathSpec::Directory => dir.join("adir").to_string_lossy().into_owned(),
            | PathSpec::MissingDir => dir.join("nodir").join("x.txt").to_string_lossy().into_owned(),
            | PathSpec::DevFull => "/dev/full".into(),
            | PathSpec::DevNull => "/dev/null".into(),
        }
    }
    fn to_json(&self) -> Value {
        match self {
            | PathSpec::In(name) => json!({"in": name}),
            | PathSpec::Out(name) => json!({"out": name}),
            | PathSpec::Missing => json!("missing"),
            | PathSpec::Directory => json!("directory"),
            | PathSpec::MissingDir => json!("missing-dir"),
            | PathSpec::DevFull => json!("/dev/full"),
            | PathSpec::DevNull => json!("/dev/null"),
        }
    }
    fn from_json(value: &Value) -> Option<Self> {
        if let Some(name) = value["in"].as_str() {
            return Some(PathSpec::In(name.into()));
        }
        if let Some(name) = value["out"].as_str() {
            return Some(PathSpec::Out(name.into()));
        }
        Some(match value.as_str()? {
            | "missing" => PathSpec::Missing,
            | "directory" => PathSpec::Directory,
            | "missing-dir" => PathSpec::MissingDir,
            | "/dev/full" => PathSpec::DevFull,
            | "/dev/null" => PathSpec::DevNull,
            | _ => return None,
        })
    }
}

#[derive(Clone, Copy, Debug, PartialEq, Eq)]
pub enum RRef {
    Stdin,
    /// the reader bound by the `OpenReader` at this script index
    Opened(usize),
}

#[derive(Clone, Copy, Debug, PartialEq, Eq)]
pub enum WRef {
    Stdout,
    Stderr,
    Opened(usize),
}

#[derive(Clone, Debug, PartialEq, Eq)]
pub enum Opn {
    OpenReader { path: PathSpec },
    CreateWriter { path: PathSpec },
    AppendWriter { path: PathSpec },
    Read { reader: RRef, count: i64 },
    ReadLine { reader: RRef },
    ReadAll { reader: RRef },
    WriteAll { writer: WRef, text: String },
    Flush { writer: WRef },
    CloseReader { reader: RRef },
    CloseWriter { writer: WRef },
    LegacyWrite { text: String },
    LegacyWriteLine { text: String },
    LegacyWriteInt { number: i64 },
    LegacyReadLine,
    LegacyReadAll,
    LegacyReadInt,
}

impl Opn {
    pub fn label(&self) -> String {
        match self {
            | Opn::OpenReader { path } => format!("open_reader({})", path.to_json()),
            | Opn::CreateWriter { path } => format!("create_writer({})", path.to_json()),
            | Opn::AppendWriter { path } => format!("append_writer({})", path.to_json()),
            | Opn::Read { reader, count } => format!("read({reader:?},{count})"),
            | Opn::ReadLine { reader } => format!("read_line({reader:?})"),
            | Opn::ReadAll { reader } => format!("read_all({reader:?})"),
            | Opn::WriteAll { writer, text } => format!("write_all({writer:?},{text:?})"),
            | Opn::Flush { writer } => format!("flush({writer:?})"),
            | Opn::CloseReader { reader } => format!("close_reader({reader:?})"),
            | Opn::CloseWriter { writer } => format!("close_writer({writer:?})"),
            | Opn::LegacyWrite { text } => format!("stdio/write({text:?})"),
            | Opn::LegacyWriteLine { text } => format!("stdio/write_line({text:?})"),
            | Opn::LegacyWriteInt { number } => format!("stdio/write_int({number})"),
            | Opn::LegacyReadLine => "stdio/read_line".into(),
            | Opn::LegacyReadAll => "stdio/read_all".into(),
            | Opn::LegacyReadInt => "stdio/read_int".into(),
        }
    }
    fn kind(&self) -> &'static str {
        match self {
            | Opn::OpenReader { .. } => "open_reader",
            | Opn::CreateWriter { .. } => "create_writer",
            | Opn::AppendWriter { .. } => "append_writer",
            | Opn::Read { .. } => "read",
            | Opn::ReadLine { .. } => "read_line",
            | Opn::ReadAll { .. } => "read_all",
            | Opn::WriteAll { .. } => "write_all",
            | Opn::Flush { .. } => "flush",
            | Opn::CloseReader { .. } => "close_reader",
            | Opn::CloseWriter { .. } => "close_writer",
            | Opn::LegacyWrite { .. } => "legacy_write",
            | Opn::LegacyWriteLine { .. } => "legacy_write_line",
            | Opn::LegacyWriteInt { .. } => "legacy_write_int",
            | Opn::LegacyReadLine => "legacy_read_line",
            | Opn::LegacyReadAll => "legacy_read_all",
            | Opn::LegacyReadInt => "legacy_read_int",
        }
    }
    fn references(&self) -> Option<usize> {
        match self {
            | Opn::Read { reader: RRef::Opened(i), .. }
            | Opn::ReadLine { reader: RRef::Opened(i) }
            | Opn::ReadAll { reader: RRef::Opened(i) }
            | Opn::CloseReader { reader: RRef::Opened(i) }
            | Opn::WriteAll { writer: WRef::Opened(i), .. }
            | Opn::Flush { writer: WRef::Opened(i) }
            | Opn::CloseWriter { writer: WRef::Opened(i) } => Some(*i),
            | _ => None,
        }
    }
    fn rebase(&mut self, removed: usize) {
        let fix = |i: &mut usize| {
            if *i > removed {
                *i -= 1;
            }
        };
        match self {
            | Opn::Read { reader: RRef::Opened(i), .. }
            | Opn::ReadLine { reader: RRef::Opened(i) }
            | Opn::ReadAll { reader: RRef::Opened(i) }
            | Opn::CloseReader { reader: RRef::Opened(i) }
            | Opn::WriteAll { writer: WRef::Opened(i), .. }
            | Opn::Flush { writer: WRef::Opened(i) }
            | Opn::CloseWriter { writer: WRef::Opened(i) } => fix(i),
            | _ => {}
        }
    }
    fn to_json(&self) -> Value {
        let rref = |r: &RRef| match r {
            | RRef::Stdin => json!("stdin"),
            | RRef::Opened(i) => json!(i),
        };
        let wref = |w: &WRef| match w {
            | WRef::Stdout => json!("stdout"),
            | WRef::Stderr => json!("stderr"),
            | WRef::Opened(i) => json!(i),
        };
        match self {
            | Opn::OpenReader { path } | Opn::CreateWriter { path } | Opn::AppendWriter { path } => {
                json!({"op": self.kind(), "path": path.to_json()})
            }
            | Opn::Read { reader, count } => json!({"op": "read", "reader": rref(reader), "count": count}),
            | Opn::ReadLine { reader } | Opn::ReadAll { reader } | Opn::CloseReader { reader } => {
                json!({"op": self.kind(), "reader": rref(reader)})
            }
            | Opn::WriteAll { writer, text } => json!({"op": "write_all", "writer": wref(writer), "text": text}),
            | Opn::Flush { writer } | Opn::CloseWriter { writer } => json!({"op": self.kind(), "writer": wref(writer)}),
            | Opn::LegacyWrite { text } | Opn::LegacyWriteLine { text } => json!({"op": self.kind(), "text": text}),
            | Opn::LegacyWriteInt { number } => json!({"op": self.kind(), "number": number}),
            | Opn::LegacyReadLine | Opn::LegacyReadAll | Opn::LegacyReadInt => json!({"op": self.kind()}),
        }
    }
    fn from_json(value: &Value) -> Option<Self> {
        let rref = |v: &Value| match v.as_str() {
            | Some("stdin") => Some(RRef::Stdin),
            | _ => v.as_u64().map(|i| RRef::Opened(i as usize)),
        };
        let wref = |v: &Value| match v.as_str() {
            | Some("stdout") => Some(WRef::Stdout),
            | Some("stderr") => Some(WRef::Stderr),
            | _ => v.as_u64().map(|i| WRef::Opened(i as usize)),
        };
        Some(match value["op"].as_str()? {
            | "open_reader" => Opn::OpenReader { path: PathSpec::from_json(&value["path"])? },
            | "create_writer" => Opn::CreateWriter { path: PathSpec::from_json(&value["path"])? },
            | "append_writer" => Opn::AppendWriter { path: PathSpec::from_json(&value["path"])? },
            | "read" => Opn::Read { reader: rref(&value["reader"])?, count: value["count"].as_i64()? },
            | "read_line" => Opn::ReadLine { reader: rref(&value["reader"])? },
            | "read_all" => Opn::ReadAll { reader: rref(&value["reader"])? },
            | "write_all" => Opn::WriteAll { writer: wref(&value["writer"])?, text: value["text"].as_str()?.into() },
            | "flush" => Opn::Flush { writer: wref(&value["writer"])? },
            | "close_reader" => Opn::CloseReader { reader: rref(&value["reader"])? },
            | "close_writer" => Opn::CloseWriter { writer: wref(&value["writer"])? },
            | "legacy_write" => Opn::LegacyWrite { text: value["text"].as_str()?.into() },
            | "legacy_write_line" => Opn::LegacyWriteLine { text: value["text"].as_str()?.into() },
            | "legacy_write_int" => Opn::LegacyWriteInt { number: value["number"].as_i64()? },
            | "legacy_read_line" => Opn::LegacyReadLine,
            | "legacy_read_all" => Opn::LegacyReadAll,
            | "legacy_read_int" => Opn::LegacyReadInt,
            | _ => return None,
        })
    }
}

#[derive(Clone, Debug)]
pub struct Script {
    pub ops: Vec<Opn>,
    pub stdin: Vec<u8>,
    pub input_files: Vec<(String, Vec<u8>)>,
    pub preexisting_outputs: Vec<(String, Vec<u8>)>,
}

impl Script {
    pub fn output_file_names(&self) -> Vec<String> {
        let mut names: Vec<String> = self.preexisting_outputs.iter().map(|(n, _)| n.clone()).collect();
        for op in &self.ops {
            if let Opn::CreateWriter { path: PathSpec::Out(name) } | Opn::AppendWriter { path: PathSpec::Out(name) } = op {
                if !names.contains(name) {
                    names.push(name.clone());
                }
            }
        }
        names
    }
    pub fn opens_input(&self, name: &str) -> bool {
        self.ops.iter().any(|op| matches!(op, Opn::OpenReader { path: PathSpec::In(n) } if n == name))
    }
    /// The script without operation `index`, unless a later operation uses its handle.
    pub fn without(&self, index: usize) -> Option<Script> {
        if self.ops.iter().any(|op| op.references() == Some(index)) {
            return None;
        }
        let mut script = self.clone();
        script.ops.remove(index);
        for op in script.ops.iter_mut() {
            op.rebase(index);
        }
        Some(script)
    }
    pub fn abstract_text(&self) -> String {
        self.ops.iter().map(|op| op.label()).collect::<Vec<_>>().join(";")
    }
    pub fn to_json(&self) -> Value {
        json!({
            "ops": self.ops.iter().map(Opn::to_json).collect::<Vec<_>>(),
            "stdin": String::from_utf8_lossy(&self.stdin),
            "stdin_bytes": self.stdin,
            "input_files": self.input_files.iter().map(|(n, b)| json!([n, b])).collect::<Vec<_>>(),
            "preexisting_outputs": self.preexisting_outputs.iter().map(|(n, b)| json!([n, b])).collect::<Vec<_>>(),
        })
    }
    pub fn from_json(value: &Value) -> Option<Self> {
        let bytes = |v: &Value| v.as_array().map(|a| a.iter().map(|b| b.as_u64().unwrap_or(0) as u8).collect::<Vec<u8>>());
        let files = |v: &Value| {
            v.as_array()?
                .iter()
                .map(|entry| Some((entry[0].as_str()?.to_string(), bytes(&entry[1])?)))
                .collect::<Option<Vec<_>>>()
        };
        Some(Self {
            ops: value["ops"].as_array()?.iter().map(Opn::from_json).collect::<Option<Vec<_>>>()?,
            stdin: bytes(&value["stdin_bytes"])?,
            input_files: files(&value["input_files"])?,
            preexisting_outputs: files(&value["preexisting_outputs"])?,
        })
    }
}

fn text(rng: &mut Rng) -> String {
    let words = ["alpha", "be ta", "g", "", "delta 42", "x\ny", "tail\n", "r\r\n", "-17", "9001", "λx"];
    let mut out = String::new();
    for _ in 0..rng.range(1, 2) {
        out.push_str(rng.pick(&words));
    }
    out
}

fn stdin_data(rng: &mut Rng) -> Vec<u8> {
    let lines = ["first", "12", "-7", "", "last line", "x y z", "crlf\r", "123abc", "  5"];
    let mut data = Vec::new();
    let count = rng.range(0, 4);
    for index in 0..count {
        data.extend_from_slice(rng.pick(&lines).as_bytes());
        if index + 1 < count || rng.chance(2, 3) {
            data.push(b'\n');
        }
    }
    if rng.chance(1, 12) {
        // invalid UTF-8 for the legacy line readers
        let position = rng.below(data.len() + 1);
        data.insert(position, 0xff);
    }
    data
}

/// Draw a script of at most `max_ops` operations.  Handles are only referenced where the
/// fault-free model has them (an open that is expected to fail binds nothing).
pub fn generate(rng: &mut Rng, max_ops: usize) -> Script {
    let stdin = stdin_data(rng);
    let input_files = vec![
        ("in0.txt".to_string(), b"one\ntwo\r\nthree".to_vec()),
        ("in1.txt".to_string(), if rng.chance(1, 2) { b"".to_vec() } else { b"solo line\n\n".to_vec() }),
    ];
    let preexisting_outputs = if rng.chance(1, 2) { vec![("out1.txt".to_string(), b"old|".to_vec())] } else { vec![] };
    let count = rng.range(2, max_ops.max(2));
    let mut ops: Vec<Opn> = Vec::new();
    let mut readers: Vec<usize> = Vec::new(); // script indices of successful OpenReader
    let mut writers: Vec<usize> = Vec::new();
    let mut open_outputs: Vec<(usize, String)> = Vec::new(); // writers currently open on a scratch file
    let mut open_appenders: Vec<(usize, String)> = Vec::new(); // those of them that append
    let mut closed_writers: Vec<usize> = Vec::new();
    let legacy = rng.chance(1, 3);
    while ops.len() < count {
        let index = ops.len();
        let roll = rng.below(if legacy { 26 } else { 20 });
        let reader = |rng: &mut Rng, readers: &Vec<usize>| {
            if readers.is_empty() || rng.chance(1, 2) { RRef::Stdin } else { RRef::Opened(*rng.pick(readers)) }
        };
        let writer = |rng: &mut Rng, writers: &Vec<usize>| {
            if writers.is_empty() || rng.chance(2, 5) {
                if rng.chance(3, 4) { WRef::Stdout } else { WRef::Stderr }
            } else {
                WRef::Opened(*rng.pick(writers))
            }
        };
        let op = match roll {
            | 0 | 1 => {
                let path = match rng.below(8) {
                    | 0 => PathSpec::Missing,
                    | 1 => PathSpec::Directory,
                    | 2 => PathSpec::MissingDir,
                    | 3 => PathSpec::DevNull,
                    | 4 | 5 => PathSpec::In("in1.txt".into()),
                    | _ => PathSpec::In("in0.txt".into()),
                };
                if matches!(path, PathSpec::In(_) | PathSpec::Directory | PathSpec::DevNull) {
                    readers.push(index);
                }
                Opn::OpenReader { path }
            }
            | 2 | 3 => {
                let name = rng.pick(&["out0.txt", "out1.txt"]).to_string();
                let path = match rng.below(8) {
                    | 0 => PathSpec::Directory,
                    | 1 => PathSpec::MissingDir,
                    | 2 => PathSpec::DevFull,
                    | 3 => PathSpec::DevNull,
                    // a file that is open for writing may get further writers only if all of them
                    // append (every write of an append writer lands at the then end of the file, so
                    // the model needs no per-handle position); anything else goes to /dev/null
                    | _ => PathSpec::Out(name.clone()),
                };
                let shared = matches!(&path, PathSpec::Out(n) if open_outputs.iter().any(|(_, o)| o == n));
                let all_append = matches!(&path, PathSpec::Out(n) if open_outputs.iter().filter(|(_, o)| o == n).all(|(w, _)| open_appenders.iter().any(|(a, _)| a == w)));
                let path = if shared && !all_append { PathSpec::DevNull } else { path };
                if matches!(path, PathSpec::Out(_) | PathSpec::DevFull | PathSpec::DevNull) {
                    writers.push(index);
                }
                let append = if shared { true } else { rng.chance(1, 2) };
                if let PathSpec::Out(name) = &path {
                    open_outputs.push((index, name.clone()));
                    if append {
                        open_appenders.push((index, name.clone()));
                    }
                }
                if append { Opn::AppendWriter { path } } else { Opn::CreateWriter { path } }
            }
            | 4 | 5 => {
                let count = if rng.chance(1, 10) { -1 - rng.below(3) as i64 } else { *rng.pick(&[0i64, 1, 2, 3, 5, 8, 100]) };
                // a negative count is only paired with the always-open standard input, so that
                // the model does not depend on which of two errors the host checks first
                let reader = if count < 0 { RRef::Stdin } else { reader(rng, &readers) };
                Opn::Read { reader, count }
            }
            | 6 | 7 | 8 => Opn::ReadLine { reader: reader(rng, &readers) },
            | 9 => Opn::ReadAll { reader: reader(rng, &readers) },
            | 10 | 11 | 12 | 13 => Opn::WriteAll { writer: writer(rng, &writers), text: text(rng) },
            | 14 => Opn::Flush { writer: writer(rng, &writers) },
            | 15 | 16 => Opn::CloseReader { reader: reader(rng, &readers) },
            | 17 | 18 => {
                let target = if !closed_writers.is_empty() && rng.chance(1, 4) {
                    WRef::Opened(*rng.pick(&closed_writers)) // double close
                } else {
                    writer(rng, &writers)
                };
                if let WRef::Opened(i) = target {
                    open_outputs.retain(|(w, _)| *w != i);
                    closed_writers.push(i);
                }
                Opn::CloseWriter { writer: target }
            }
            | 19 => Opn::WriteAll { writer: WRef::Stdout, text: text(rng) },
            | 20 => Opn::LegacyWrite { text: text(rng) },
            | 21 => Opn::LegacyWriteLine { text: text(rng).replace('\n', " ") },
            | 22 => Opn::LegacyWriteInt { number: rng.below(2000) as i64 - 1000 },
            | 23 => Opn::LegacyReadLine,
            | 24 => Opn::LegacyReadInt,
            | _ => Opn::LegacyReadAll,
        };
        ops.push(op);
    }
    Script { ops, stdin, input_files, preexisting_outputs }
}

fn literal(text: &str) -> String {
    let mut out = String::from("\"");
    for ch in text.chars() {
        match ch {
            | '\\' => out.push_str("\\\\"),
            | '"' => out.push_str("\\\""),
            | '\n' => out.push_str("\\n"),
            | '\r' => out.push_str("\\r"),
            | '\t' => out.push_str("\\t"),
            | other => out.push(other),
        }
    }
    out.push('"');
    out
}

const PRELUDE: &str = r#"begin
  param ((/core; /representations; /numeric; /text; /system) : @(import("/repo/lib/std/builtin.zy"))) that
  let (/VType; /CType; /Thk; /Ret; /Unit) = core that
  let (/Scalar = Int64) = representations/i64 that
  let (/Scalar = String) = representations/string that
  let (/Scalar = Bytes) = representations/bytes that
  let (Scalar = NumericInt64, int64) = numeric/int64 that
  let (/bytes) = text that
  let (/Reader; /Writer; /OS; /io; /fs; /stdio; /process) = system that
  def ! log (obs : Writer) (tag : String) (k : Thk OS) : OS =
    do b <- ! (bytes/from_string) tag;
    ! (io/write_all) obs b { fn c m => ! (process/exit) 97 } k
  that
  def ! logint (obs : Writer) (n : Int64) (k : Thk OS) : OS =
    do s <- ! (int64/to_string) n;
    ! log obs s k
  that
  def ! logbytes (obs : Writer) (payload : Bytes) (k : Thk OS) : OS =
    do n <- ! (bytes/length) payload;
    ! logint obs n { ! log obs ":" { ! (io/write_all) obs payload { fn c m => ! (process/exit) 97 } { ! log obs "\n" k } } }
  that
  def ! logstring (obs : Writer) (payload : String) (k : Thk OS) : OS =
    do b <- ! (bytes/from_string) payload;
    ! logbytes obs b k
  that
  def ! unexpected (obs : Writer) (tag : String) : OS = ! log obs tag { ! (process/exit) 90 } that
  def ! unexpected_error (obs : Writer) (tag : String) (code : Int64) : OS =
    ! log obs tag { ! logint obs code { ! log obs "\n" { ! (process/exit) 90 } } }
  that
"#;

/// Compile the script along the predicted path.
pub fn render(script: &Script, expectation: &Expectation, dir: &PathBuf) -> String {
    let obs = dir.join("obs.log").to_string_lossy().into_owned();
    let mut out = String::from(PRELUDE);
    out.push_str(&format!(
        "  do so <- ! (stdio/stdout);\n  do se <- ! (stdio/stderr);\n  do si <- ! (stdio/stdin);\n  ! (fs/create_writer) {} {{ fn c m => ! (process/exit) 98 }} {{ fn obs =>\n",
        literal(&obs)
    ));
    out.push_str(&step(script, expectation, dir, 0));
    out.push_str("\n  }\nend\n");
    out
}

fn rname(reader: &RRef) -> String {
    match reader {
        | RRef::Stdin => "si".into(),
        | RRef::Opened(i) => format!("r{i}"),
    }
}

fn wname(writer: &WRef) -> String {
    match writer {
        | WRef::Stdout => "so".into(),
        | WRef::Stderr => "se".into(),
        | WRef::Opened(i) => format!("w{i}"),
    }
}

fn step(script: &Script, expectation: &Expectation, dir: &PathBuf, index: usize) -> String {
    if index >= script.ops.len() || index >= expectation.path.len() {
        return "! (process/exit) 0".into();
    }
    let pad = "    ";
    let next = || step(script, expectation, dir, index + 1);
    let predicted = &expectation.path[index];
    // continuation bodies: the predicted one logs and goes on, the others log and stop
    let on_error = |kind: Option<i64>| match (predicted, kind) {
        | (Outcome::Err(_), _) => format!(
            "{{ fn c m => ! log obs \"{index}:err:\" {{ ! logint obs c {{ ! log obs \"\\n\" {{ {} }} }} }} }}",
            next()
        ),
        | _ => format!("{{ fn c m => ! unexpected_error obs \"{index}:UNEXPECTED-err:\" c }}"),
    };
    let on_done = |tag: &str, wanted: bool| {
        if wanted {
            format!("{{ ! log obs \"{index}:{tag}\\n\" {{ {} }} }}", next())
        } else {
            format!("{{ ! unexpected obs \"{index}:UNEXPECTED-{tag}\\n\" }}")
        }
    };
    let on_bytes = |wanted: bool| {
        if wanted {
            format!("{{ fn chunk => ! log obs \"{index}:bytes:\" {{ ! logbytes obs chunk {{ {} }} }} }}", next())
        } else {
            format!("{{ fn chunk => ! unexpected obs \"{index}:UNEXPECTED-bytes\\n\" }}")
        }
    };
    let is_ok = matches!(predicted, Outcome::Ok);
    let is_eof = matches!(predicted, Outcome::Eof);
    let is_bytes = matches!(predicted, Outcome::Bytes);
    let body = match &script.ops[index] {
        | Opn::OpenReader { path } => format!(
            "! (fs/open_reader) {} {} {}",
            literal(&path.concrete(dir)),
            on_error(None),
            if is_ok {
                format!("{{ fn r{index} => ! log obs \"{index}:ok\\n\" {{ {} }} }}", next())
            } else {
                format!("{{ fn r{index} => ! unexpected obs \"{index}:UNEXPECTED-ok\\n\" }}")
            }
        ),
        | Opn::CreateWriter { path } | Opn::AppendWriter { path } => format!(
            "! (fs/{}) {} {} {}",
            if matches!(script.ops[index], Opn::CreateWriter { .. }) { "create_writer" } else { "append_writer" },
            literal(&path.concrete(dir)),
            on_error(None),
            if is_ok {
                format!("{{ fn w{index} => ! log obs \"{index}:ok\\n\" {{ {} }} }}", next())
            } else {
                format!("{{ fn w{index} => ! unexpected obs \"{index}:UNEXPECTED-ok\\n\" }}")
            }
        ),
        | Opn::Read { reader, count } => {
            format!("! (io/read) {} {} {} {}", rname(reader), if *count < 0 { format!("({count})") } else { count.to_string() }, on_error(None), on_bytes(is_bytes))
        }
        | Opn::ReadLine { reader } => {
            format!("! (io/read_line) {} {} {} {}", rname(reader), on_error(None), on_done("eof", is_eof), on_bytes(is_bytes))
        }
        | Opn::ReadAll { reader } => format!("! (io/read_all) {} {} {}", rname(reader), on_error(None), on_bytes(is_bytes)),
        | Opn::WriteAll { writer, text } => format!(
            "do payload <- ! (bytes/from_string) {};\n{pad}! (io/write_all) {} payload {} {}",
            literal(text),
            wname(writer),
            on_error(None),
            on_done("ok", is_ok)
        ),
        | Opn::Flush { writer } => format!("! (io/flush) {} {} {}", wname(writer), on_error(None), on_done("ok", is_ok)),
        | Opn::CloseReader { reader } => {
            format!("! (io/close_reader) {} {} {}", rname(reader), on_error(None), on_done("ok", is_ok))
        }
        | Opn::CloseWriter { writer } => {
            format!("! (io/close_writer) {} {} {}", wname(writer), on_error(None), on_done("ok", is_ok))
        }
        | Opn::LegacyWrite { text } => format!("! (stdio/write) {} {}", literal(text), on_done("ok", true)),
        | Opn::LegacyWriteLine { text } => format!("! (stdio/write_line) {} {}", literal(text), on_done("ok", true)),
        | Opn::LegacyWriteInt { number } => format!(
            "! (stdio/write_int) {} {}",
            if *number < 0 { format!("({number})") } else { number.to_string() },
            on_done("ok", true)
        ),
        | Opn::LegacyReadLine => format!(
            "! (stdio/read_line) {{ fn line => ! log obs \"{index}:bytes:\" {{ ! logstring obs line {{ {} }} }} }}",
            next()
        ),
        | Opn::LegacyReadAll => format!(
            "! (stdio/read_all) {{ fn line => ! log obs \"{index}:bytes:\" {{ ! logstring obs line {{ {} }} }} }}",
            next()
        ),
        | Opn::LegacyReadInt => format!(
            "! (stdio/read_int) {} {}",
            if matches!(predicted, Outcome::Fail) {
                format!("{{ ! log obs \"{index}:fail\\n\" {{ {} }} }}", next())
            } else {
                format!("{{ ! unexpected obs \"{index}:UNEXPECTED-fail\\n\" }}")
            },
            if matches!(predicted, Outcome::Int) {
                format!("{{ fn n => ! log obs \"{index}:int:\" {{ ! logint obs n {{ ! log obs \"\\n\" {{ {} }} }} }} }}", next())
            } else {
                format!("{{ fn n => ! unexpected obs \"{index}:UNEXPECTED-int\\n\" }}")
            }
        ),
    };
    let _ = on_error(Some(0));
    format!("{pad}{body}")
}
