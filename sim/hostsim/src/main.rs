//! E4 `hostsim` — C06, I/O clause only: "I/O operations report failures through their
//! error continuation and closed handles stay closed".
//!
//! A seeded I/O script is compiled into one Zydeco program in continuation-passing
//! style against the raw `system/{io,fs,stdio}` package; stdin and stdout are devices
//! owned by the simulator (faults at byte offsets: EINTR-style interruptions, short
//! transfers, zero-length writes, hard errors once/forever, failing flushes, early EOF);
//! files are real paths in a scratch directory plus special paths (`/dev/full`, a
//! directory, a missing directory, a path with NUL).  A reference model of the host ABI
//! predicts, per operation, the continuation taken and its payload, the final stdout
//! bytes and the final file contents.
//!
//! usage: hostsim run --tier T --seed S --shard I/N --scripts K --out FILE
//!        hostsim replay FILE

mod device;
mod model;
mod script;

use device::{InFault, OutFault, Plan, SimIn, SimOut};
use script::Script;
use std::collections::{BTreeMap, BTreeSet};
use std::io::BufReader;
use std::panic::{AssertUnwindSafe, catch_unwind};
use std::path::PathBuf;
use zysim_common::{ChildOutcome, Rng, Value, json, mix, run_forked, shim};

const ENGINE: u64 = 4;

fn argument<'a>(args: &'a [String], name: &str) -> Option<&'a str> {
    args.iter().position(|a| a == name).and_then(|i| args.get(i + 1)).map(String::as_str)
}

fn scratch_dir(tag: &str) -> PathBuf {
    let base = if std::path::Path::new("/dev/shm").is_dir() { "/dev/shm" } else { "/verif/scratch" };
    let dir = PathBuf::from(base).join(format!("zyhost-{:>08}-{tag}", std::process::id()));
    std::fs::create_dir_all(&dir).expect("create scratch directory");
    dir.canonicalize().expect("canonical scratch directory")
}

/// FFI to the armed part of the `zysim` shim (byte-offset faults on real files).
mod file_faults {
    type Add = unsafe extern "C" fn(*const libc::c_char, i32, libc::c_long, i32, i32) -> i32;
    type Clear = unsafe extern "C" fn();

    fn symbol(name: &[u8]) -> *mut libc::c_void {
        unsafe { libc::dlsym(libc::RTLD_DEFAULT, name.as_ptr() as *const libc::c_char) }
    }

    pub fn add(path: &str, write: bool, offset: usize, kind: i32, errno: i32) {
        let function = symbol(b"zysim_file_plan_add\0");
        assert!(!function.is_null(), "the zysim shim lacks zysim_file_plan_add");
        let function: Add = unsafe { std::mem::transmute(function) };
        let path = std::ffi::CString::new(path).expect("path without NUL");
        unsafe { function(path.as_ptr(), write as i32, offset as libc::c_long, kind, errno) };
    }

    pub fn clear() {
        let function = symbol(b"zysim_file_plan_clear\0");
        if !function.is_null() {
            let function: Clear = unsafe { std::mem::transmute(function) };
            unsafe { function() };
        }
    }
}

/// What one execution of the real interpreter produced.
struct Observed {
    log: Vec<u8>,
    stdout: Vec<u8>,
    files: BTreeMap<String, Option<Vec<u8>>>,
    exit: String,
    panic: Option<String>,
    compile_error: Option<String>,
}

fn prepare_world(dir: &PathBuf, script: &Script) {
    let _ = std::fs::remove_dir_all(dir);
    std::fs::create_dir_all(dir.join("adir")).expect("mkdir adir");
    for (name, bytes) in &script.input_files {
        std::fs::write(dir.join(name), bytes).expect("write input file");
    }
    for (name, bytes) in &script.preexisting_outputs {
        std::fs::write(dir.join(name), bytes).expect("write pre-existing output file");
    }
}

fn execute_real(dir: &PathBuf, script: &Script, plan: &Plan, program: &str) -> Observed {
    prepare_world(dir, script);
    let root = dir.join("prog.zy");
    let mut session = zydeco_session::CompilerSession::default();
    session.set_overlay(&root, program.to_string()).expect("overlay");
    let mut observed = Observed {
        log: Vec::new(),
        stdout: Vec::new(),
        files: BTreeMap::new(),
        exit: String::new(),
        panic: None,
        compile_error: None,
    };
    let analysis = match session.analyze(&root) {
        | Ok(analysis) => analysis,
        | Err(error) => {
            observed.compile_error = Some(error.to_string());
            return observed;
        }
    };
    let executable = match session.executable_program(&analysis) {
        | Ok(executable) => executable,
        | Err(error) => {
            let reports = analysis
                .outcome()
                .reports()
                .map(|r| r.spans.iter().flatten().map(|(_, range, m)| format!("{range:?}:{m}")).collect::<Vec<_>>().join(" | "))
                .unwrap_or_default();
            observed.compile_error = Some(format!("{error}: {reports}"));
            return observed;
        }
    };
    let dynamics = match (zydeco_dynamics::BuiltinRootLinker {
        scoped: executable.scoped,
        statics: executable.statics,
        root: executable.root,
        signature: executable.signature,
    })
    .run()
    {
        | Ok(dynamics) => dynamics,
        | Err(error) => {
            observed.compile_error = Some(error.to_string());
            return observed;
        }
    };
    let mut input = BufReader::with_capacity(plan.in_buffer.max(1), SimIn::new(&script.stdin, plan));
    let mut output = SimOut::new(plan);
    // arm the shim's file-fault plan around the interpreter run only
    for (name, write, offset, fault) in &plan.file_faults {
        let (kind, errno) = fault.shim();
        file_faults::add(&dir.join(name).to_string_lossy(), *write, *offset, kind, errno);
    }
    let result = catch_unwind(AssertUnwindSafe(|| {
        zydeco_dynamics::Runtime::new(&mut input, &mut output, &[], dynamics).run()
    }));
    file_faults::clear();
    match result {
        | Ok(zydeco_dynamics::ProgKont::ExitCode(code)) => observed.exit = format!("exit({code})"),
        | Ok(zydeco_dynamics::ProgKont::Dry) => observed.exit = "dry".into(),
        | Ok(zydeco_dynamics::ProgKont::Ret(_)) => observed.exit = "ret".into(),
        | Err(payload) => {
            observed.exit = "panic".into();
            observed.panic = Some(zysim_common::panic_message(&*payload));
        }
    }
    observed.stdout = output.accepted;
    observed.log = std::fs::read(dir.join("obs.log")).unwrap_or_default();
    for name in script.output_file_names() {
        observed.files.insert(name.clone(), std::fs::read(dir.join(&name)).ok());
    }
    observed
}

fn first_difference(expected: &[u8], actual: &[u8]) -> (String, String) {
    let e = String::from_utf8_lossy(expected);
    let a = String::from_utf8_lossy(actual);
    let (el, al): (Vec<&str>, Vec<&str>) = (e.split('\n').collect(), a.split('\n').collect());
    for index in 0..el.len().max(al.len()) {
        let (x, y) = (el.get(index).copied().unwrap_or("<end>"), al.get(index).copied().unwrap_or("<end>"));
        if x != y {
            return (format!("line {}: {:?}", index + 1, x), format!("line {}: {:?}", index + 1, y));
        }
    }
    ("<equal>".into(), "<equal>".into())
}

/// Judge one (script, plan): returns (class, message, expected, actual) on violation.
fn judge(dir: &PathBuf, script: &Script, plan: &Plan) -> (Option<(String, String, String, String)>, Value) {
    let expectation = model::predict(script, plan, dir);
    let program = script::render(script, &expectation, dir);
    let observed = execute_real(dir, script, plan, &program);
    let stats = json!({
        "ops": script.ops.len(),
        "continuations": expectation.continuations.clone(),
        "faults_fired_in": expectation.in_faults_fired,
        "faults_fired_out": expectation.out_faults_fired,
        "legacy_panic_expected": expectation.legacy_panic.is_some(),
        "log_hash": zysim_common::fnv1a(&observed.log).to_string(),
    });
    if let Some(error) = observed.compile_error {
        // the generator is at fault if its program does not check: harness error, never a violation
        return (Some(("HARNESS".into(), format!("generated program rejected: {error}\n{program}"), String::new(), String::new())), stats);
    }
    if let Some(message) = &observed.panic {
        let legacy = message.contains("legacy standard-output write failed") || message.contains("legacy standard-input read failed");
        match (&expectation.legacy_panic, legacy) {
            | (Some(_), true) => {}
            | _ => {
                return (
                    Some((
                        "C06:panic".into(),
                        format!("the interpreter panicked: {}", message.chars().take(300).collect::<String>()),
                        expectation.legacy_panic.clone().unwrap_or_else(|| "no panic (every failure goes to an error continuation)".into()),
                        message.chars().take(300).collect(),
                    )),
                    stats,
                );
            }
        }
    } else if let Some(expected) = &expectation.legacy_panic {
        return (
            Some(("C06:trace".into(), "a documented legacy `expect` was predicted but the program went on".into(), expected.clone(), observed.exit.clone())),
            stats,
        );
    }
    if observed.log != expectation.log {
        let (expected, actual) = first_difference(&expectation.log, &observed.log);
        return (
            Some(("C06:trace".into(), "the continuation trace differs from the host-ABI model".into(), expected, actual)),
            stats,
        );
    }
    if observed.panic.is_none() && observed.exit != "exit(0)" {
        return (
            Some(("C06:trace".into(), "the program did not reach its end".into(), "exit(0)".into(), observed.exit.clone())),
            stats,
        );
    }
    if observed.stdout != expectation.stdout {
        let (expected, actual) = first_difference(&expectation.stdout, &observed.stdout);
        return (
            Some(("C06:stdout".into(), "bytes accepted by standard output differ from the model (lost, duplicated or wrong bytes)".into(), expected, actual)),
            stats,
        );
    }
    for (name, expected) in &expectation.files {
        let actual = observed.files.get(name).cloned().flatten();
        if &actual != expected {
            let render = |bytes: &Option<Vec<u8>>| bytes.as_ref().map(|b| format!("{:?}", String::from_utf8_lossy(b))).unwrap_or("<absent>".into());
            return (
                Some(("C06:file".into(), format!("final contents of {name} differ from the model"), render(expected), render(&actual))),
                stats,
            );
        }
    }
    (None, stats)
}

fn run_child(dir: &PathBuf, key: u64, script: &Script, plan: &Plan) -> Value {
    let dir = dir.clone();
    let script = script.clone();
    let plan = plan.clone();
    let outcome = run_forked(60, move || {
        shim::reseed(key);
        std::panic::set_hook(Box::new(|_| {}));
        let result = zysim_common::with_big_stack(256 << 20, move || {
            let (verdict, stats) = judge(&dir, &script, &plan);
            json!({
                "violation": verdict.map(|(class, message, expected, actual)| json!({"class": class, "message": message, "expected": expected, "actual": actual})),
                "stats": stats,
            })
        });
        serde_json::to_vec(&result.unwrap_or_else(|message| json!({"harness_panic": message}))).unwrap()
    });
    match outcome {
        | ChildOutcome::Record(bytes) => serde_json::from_slice(&bytes).unwrap_or(json!({"harness_panic": "unparsable child record"})),
        | ChildOutcome::Crashed { status, signal, stderr, .. } => json!({"violation": {
            "class": "C06:crash", "message": format!("the interpreter process died (status {status}, signal {signal})"),
            "expected": "no crash", "actual": String::from_utf8_lossy(&stderr[stderr.len().saturating_sub(600)..]).to_string()}}),
        | ChildOutcome::TimedOut => json!({"violation": {"class": "C06:hang", "message": "the interpreter did not finish", "expected": "termination", "actual": "timeout"}}),
    }
}

fn class_of(record: &Value) -> Option<String> {
    record["violation"]["class"].as_str().map(str::to_string)
}

fn minimise(dir: &PathBuf, key: u64, script: &Script, plan: &Plan, class: &str) -> (Script, Plan) {
    let mut best = (script.clone(), plan.clone());
    let mut spent = 0;
    let mut progress = true;
    while progress && spent < 80 {
        progress = false;
        let mut candidates: Vec<(Script, Plan)> = Vec::new();
        for index in (0..best.0.ops.len()).rev() {
            if let Some(smaller) = best.0.without(index) {
                candidates.push((smaller, best.1.clone()));
            }
        }
        for simpler in best.1.simplifications() {
            candidates.push((best.0.clone(), simpler));
        }
        for candidate in candidates {
            spent += 1;
            if class_of(&run_child(dir, key, &candidate.0, &candidate.1)).as_deref() == Some(class) {
                best = candidate;
                progress = true;
                break;
            }
            if spent >= 80 {
                break;
            }
        }
    }
    best
}

fn main() {
    let args: Vec<String> = std::env::args().collect();
    if !shim::present() {
        eprintln!("hostsim: the zysim entropy seam is not loaded (LD_PRELOAD)");
        std::process::exit(2);
    }
    match args.get(1).map(String::as_str) {
        | Some("run") => run(&args[2..]),
        | Some("replay") => replay(&args[2]),
        | Some("show") => show(&args[2..]),
        | _ => {
            eprintln!("usage: hostsim run|replay|show ...");
            std::process::exit(2);
        }
    }
}

fn run(args: &[String]) {
    let tier = argument(args, "--tier").unwrap_or("quick").to_string();
    let seed: u64 = argument(args, "--seed").and_then(|s| s.parse().ok()).unwrap_or(zysim_common::DEFAULT_SEED);
    let (shard, shards) = argument(args, "--shard")
        .and_then(|s| s.split_once('/'))
        .map(|(a, b)| (a.parse::<u64>().unwrap(), b.parse::<u64>().unwrap()))
        .unwrap_or((0, 1));
    let scripts: u64 = argument(args, "--scripts").and_then(|s| s.parse().ok()).unwrap_or(20);
    let multi: u64 = argument(args, "--multi").and_then(|s| s.parse().ok()).unwrap_or(0);
    let out = argument(args, "--out").expect("--out").to_string();
    // one directory per shard would make paths depend on the worker count; paths are inputs of
    // the programs under test (they are string literals), so they are a function of the seed only
    let dir = zysim_common::run_directory("host", seed, shards * 1000 + shard);

    let mut evaluations = 0u64;
    let mut enumerated_scripts = 0u64;
    let mut fault_positions = 0u64;
    let mut fault_kinds: BTreeMap<String, u64> = BTreeMap::new();
    let mut continuations: BTreeMap<String, u64> = BTreeMap::new();
    let mut distinct: BTreeSet<u64> = BTreeSet::new();
    let mut logical_steps = 0u64;
    let mut legacy_panics = 0u64;
    let mut samples = Vec::new();
    let mut violations = Vec::new();

    let mut consider = |script: &Script, plan: &Plan, key: u64, family: &str, index: u64,
                        evaluations: &mut u64, violations: &mut Vec<Value>, samples: &mut Vec<Value>| {
        let record = run_child(&dir, key, script, plan);
        *evaluations += 1;
        if let Some(message) = record.get("harness_panic") {
            eprintln!("hostsim: harness panic: {message}");
            std::process::exit(2);
        }
        if let Some(stats) = record.get("stats") {
            logical_steps += stats["ops"].as_u64().unwrap_or(0);
            for tag in stats["continuations"].as_array().into_iter().flatten() {
                *continuations.entry(tag.as_str().unwrap_or("?").to_string()).or_default() += 1;
            }
            if stats["legacy_panic_expected"] == true {
                legacy_panics += 1;
            }
            distinct.insert(zysim_common::fnv1a(
                format!("{}|{}", script.abstract_text(), stats["continuations"]).as_bytes(),
            ));
            for (direction, list) in [("stdin", &stats["faults_fired_in"]), ("stdout", &stats["faults_fired_out"])] {
                for fault in list.as_array().into_iter().flatten() {
                    let label = fault.as_str().unwrap_or("?");
                    let key = if label.starts_with("file-") { label.to_string() } else { format!("{direction}:{label}") };
                    *fault_kinds.entry(key).or_default() += 1;
                }
            }
        }
        if samples.len() < 2 && index % 3 == 1 && !plan.is_empty() {
            samples.push(json!({"family": family, "script": script.to_json(), "plan": plan.to_json(),
                "continuations": record["stats"]["continuations"]}));
        }
        if let Some(class) = class_of(&record) {
            if class == "HARNESS" {
                eprintln!("hostsim: {}", record["violation"]["message"]);
                std::process::exit(2);
            }
            if violations.len() < 4 {
                let (min_script, min_plan) = minimise(&dir, key, script, plan, &class);
                let confirm = run_child(&dir, key, &min_script, &min_plan);
                let (final_script, final_plan, detail) = if class_of(&confirm).as_deref() == Some(&class) {
                    (min_script, min_plan, confirm["violation"].clone())
                } else {
                    (script.clone(), plan.clone(), record["violation"].clone())
                };
                violations.push(json!({
                    "property": "C06", "engine": "hostsim", "class": class, "seed": seed.to_string(), "key": key.to_string(),
                    "family": family, "script": final_script.to_json(), "plan": final_plan.to_json(), "violation": detail,
                    "trace": final_script.ops.iter().map(|op| op.label()).collect::<Vec<_>>(),
                }));
            } else {
                violations.push(json!({"property": "C06", "class": class, "unminimised": true}));
            }
            return true;
        }
        false
    };

    // (1) single-fault enumeration: every position x kind, scripts of <= 6 operations
    let mut index = shard;
    while index < scripts {
        let seed_i = mix(seed, ENGINE, index);
        let mut rng = Rng::new(seed_i);
        let script = script::generate(&mut rng, 6);
        let key = mix(seed_i, 77, 0);
        enumerated_scripts += 1;
        let clean = Plan::fault_free(&mut rng);
        let mut failed = consider(&script, &clean, key, "fault-free", index, &mut evaluations, &mut violations, &mut samples);
        if !failed {
            // stream lengths of the fault-free execution decide the positions
            let expectation = model::predict(&script, &clean, &dir);
            let in_len = script.stdin.len();
            let out_len = expectation.stdout.len();
            let mut plans: Vec<Plan> = Vec::new();
            for position in 0..=in_len {
                for fault in InFault::all() {
                    plans.push(clean.with_in_fault(position, fault));
                }
                plans.push(clean.with_early_eof(position));
            }
            for position in 0..=out_len {
                for fault in OutFault::all() {
                    plans.push(clean.with_out_fault(position, fault));
                }
                plans.push(clean.with_flush_failing_from(position));
            }
            for chunk in [1usize, 2, 7] {
                plans.push(clean.with_chunks(chunk));
            }
            // real files: every offset of every input file that is opened, every offset of the
            // fault-free final contents of every output file that is written
            for (name, bytes) in &script.input_files {
                if script.opens_input(name) {
                    for position in 0..=bytes.len() {
                        for fault in device::FileFault::all_read() {
                            plans.push(clean.with_file_fault(name, false, position, fault));
                        }
                    }
                }
            }
            for (name, contents) in &expectation.files {
                if let Some(contents) = contents {
                    for position in 0..=contents.len() {
                        for fault in device::FileFault::all_write() {
                            plans.push(clean.with_file_fault(name, true, position, fault));
                        }
                    }
                }
            }
            for plan in plans {
                fault_positions += 1;
                failed = consider(&script, &plan, key, "single-fault", index, &mut evaluations, &mut violations, &mut samples);
                if failed {
                    break;
                }
            }
        }
        index += shards;
    }
    // (2) seeded multi-fault scripts up to 20 operations
    let mut index = shard;
    while index < multi {
        let seed_i = mix(seed, ENGINE + 50, index);
        let mut rng = Rng::new(seed_i);
        let script = script::generate(&mut rng, 20);
        let plan = Plan::random(&mut rng, script.stdin.len(), 400);
        let key = mix(seed_i, 77, 0);
        consider(&script, &plan, key, "multi-fault", index, &mut evaluations, &mut violations, &mut samples);
        index += shards;
    }
    let _ = std::fs::remove_dir_all(&dir);
    let record = json!({
        "shard": shard, "shards": shards, "tier": tier, "seed": seed.to_string(),
        "evaluations": evaluations, "enumerated_scripts": enumerated_scripts, "single_fault_plans": fault_positions,
        "multi_fault_scripts": multi, "fault_kinds_fired": fault_kinds, "continuations_taken": continuations,
        "distinct": distinct.iter().map(|d| d.to_string()).collect::<Vec<_>>(), "logical_steps": logical_steps,
        "legacy_panics_predicted_and_observed": legacy_panics,
        "samples": samples, "violations": violations,
    });
    std::fs::write(&out, serde_json::to_vec(&record).unwrap()).expect("write shard record");
}

fn replay(path: &str) {
    let text = std::fs::read_to_string(path).expect("read replay file");
    let value: Value = serde_json::from_str(&text).expect("parse replay file");
    let script = Script::from_json(&value["script"]).expect("replay file: script");
    let plan = Plan::from_json(&value["plan"]).expect("replay file: plan");
    let key: u64 = value["key"].as_str().and_then(|s| s.parse().ok()).unwrap_or(1);
    let dir = scratch_dir("rp");
    let record = run_child(&dir, key, &script, &plan);
    let _ = std::fs::remove_dir_all(&dir);
    println!("{}", serde_json::to_string_pretty(&json!({"script": script.to_json(), "plan": plan.to_json(), "result": record})).unwrap());
    match class_of(&record) {
        | Some(class) => {
            println!("REPRODUCED property=C06 class={class}");
            let expected = value["class"].as_str().unwrap_or(&class).to_string();
            std::process::exit(if expected == class { 1 } else { 3 });
        }
        | None => {
            println!("NOT-REPRODUCED");
            std::process::exit(0);
        }
    }
}

/// Debugging aid: print the program and the model's expectation of one seeded script.
fn show(args: &[String]) {
    let seed: u64 = argument(args, "--seed").and_then(|s| s.parse().ok()).unwrap_or(1);
    let index: u64 = argument(args, "--index").and_then(|s| s.parse().ok()).unwrap_or(0);
    let mut rng = Rng::new(mix(seed, ENGINE, index));
    let script = script::generate(&mut rng, 6);
    let plan = Plan::fault_free(&mut rng);
    let dir = scratch_dir("sh");
    let expectation = model::predict(&script, &plan, &dir);
    println!("{}", script::render(&script, &expectation, &dir));
    println!("-- expected log:\n{}", String::from_utf8_lossy(&expectation.log));
    let record = run_child(&dir, 1, &script, &plan);
    println!("-- result: {record}");
    let _ = std::fs::remove_dir_all(&dir);
}
