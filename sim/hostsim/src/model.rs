//! Reference model of the host ABI: handle table, stream positions, fault plan.
//!
//! Deliberately simple and independent of the implementation: streams are consumed one
//! byte at a time, `Interrupted` and short transfers are invisible, a hard error selects
//! the error continuation with the kind the ABI table assigns, may lose the bytes that one
//! operation had consumed/not yet written, and never yields wrong bytes; a closed handle
//! answers `closed` forever; the standard handles survive `close`.

use crate::device::{EACCES, EPIPE, ErrKind, FileFault, InFault, OutFault, Plan};
use crate::script::{Opn, PathSpec, RRef, Script, WRef};
use std::collections::BTreeMap;
use std::path::PathBuf;

/// The model's own copy of the ABI error-kind table (`HostIoErrorKind`).
const NOT_FOUND: i64 = 0;
const PERMISSION_DENIED: i64 = 1;
const INVALID_INPUT: i64 = 3;
const INVALID_DATA: i64 = 4;
const BROKEN_PIPE: i64 = 5;
const CLOSED: i64 = 6;
const OTHER: i64 = 7;

fn abi_kind(kind: ErrKind) -> i64 {
    match kind {
        | ErrKind::Other | ErrKind::TimedOut => OTHER,
        | ErrKind::BrokenPipe => BROKEN_PIPE,
        | ErrKind::PermissionDenied => PERMISSION_DENIED,
        | ErrKind::InvalidData => INVALID_DATA,
        | ErrKind::NotConnected => CLOSED, // the ABI folds "not connected" into "closed"
    }
}

#[derive(Clone, Debug, PartialEq, Eq)]
pub enum Outcome {
    Ok,
    Eof,
    Err(i64),
    Bytes,
    Int,
    Fail,
    LegacyPanic,
}

pub struct Expectation {
    pub path: Vec<Outcome>,
    pub log: Vec<u8>,
    pub stdout: Vec<u8>,
    pub files: BTreeMap<String, Option<Vec<u8>>>,
    pub legacy_panic: Option<String>,
    pub continuations: Vec<String>,
    pub in_faults_fired: Vec<String>,
    pub out_faults_fired: Vec<String>,
}

struct ModelIn {
    data: Vec<u8>,
    position: usize,
    faults: Vec<(usize, InFault, bool)>,
    fired: Vec<String>,
}

enum Item {
    Byte(u8),
    Eof,
    Error(ErrKind),
}

impl ModelIn {
    fn next(&mut self) -> Item {
        loop {
            let mut interrupted = false;
            for fault in self.faults.iter_mut() {
                if fault.0 == self.position {
                    match fault.1 {
                        | InFault::Interrupted if !fault.2 => {
                            fault.2 = true;
                            self.fired.push(fault.1.label());
                            interrupted = true; // invisible: retry
                            break;
                        }
                        | InFault::HardOnce(kind) if !fault.2 => {
                            fault.2 = true;
                            self.fired.push(fault.1.label());
                            return Item::Error(kind);
                        }
                        | InFault::HardForever(kind) => {
                            self.fired.push(fault.1.label());
                            return Item::Error(kind);
                        }
                        | _ => {}
                    }
                }
            }
            if interrupted {
                continue;
            }
            if self.position >= self.data.len() {
                return Item::Eof;
            }
            let byte = self.data[self.position];
            self.position += 1;
            return Item::Byte(byte);
        }
    }
}

struct ModelOut {
    accepted: Vec<u8>,
    faults: Vec<(usize, OutFault, bool)>,
    flush_fails_from: Option<(usize, ErrKind)>,
    fired: Vec<String>,
}

impl ModelOut {
    /// `write_all`: every byte in order; `Err(kind)` stops it (the prefix stays accepted).
    fn write_all(&mut self, bytes: &[u8]) -> Result<(), i64> {
        for byte in bytes {
            loop {
                let position = self.accepted.len();
                let mut retry = false;
                for fault in self.faults.iter_mut() {
                    if fault.0 == position {
                        match fault.1 {
                            | OutFault::Interrupted if !fault.2 => {
                                fault.2 = true;
                                self.fired.push(fault.1.label());
                                retry = true;
                                break;
                            }
                            | OutFault::Zero if !fault.2 => {
                                fault.2 = true;
                                self.fired.push(fault.1.label());
                                return Err(OTHER); // WriteZero has no ABI kind of its own
                            }
                            | OutFault::HardOnce(kind) if !fault.2 => {
                                fault.2 = true;
                                self.fired.push(fault.1.label());
                                return Err(abi_kind(kind));
                            }
                            | OutFault::HardForever(kind) => {
                                self.fired.push(fault.1.label());
                                return Err(abi_kind(kind));
                            }
                            | _ => {}
                        }
                    }
                }
                if !retry {
                    break;
                }
            }
            self.accepted.push(*byte);
        }
        Ok(())
    }
    fn flush(&mut self) -> Result<(), i64> {
        match self.flush_fails_from {
            | Some((from, kind)) if self.accepted.len() >= from => {
                self.fired.push("flush-fails".into());
                Err(abi_kind(kind))
            }
            | _ => Ok(()),
        }
    }
}

/// The model's copy of the file-fault plan (a `once` fault fires once per plan entry, whichever
/// handle meets it).
struct FilePlan {
    entries: Vec<(String, bool, usize, FileFault, bool)>,
    fired: Vec<String>,
}

enum Meet {
    Nothing,
    /// invisible: retry
    Interrupted,
    Error(i64),
}

fn errno_kind(errno: i32) -> i64 {
    if errno == EACCES {
        PERMISSION_DENIED
    } else if errno == EPIPE {
        BROKEN_PIPE
    } else {
        OTHER // EIO, ENOSPC: no ABI kind of their own
    }
}

impl FilePlan {
    fn meet(&mut self, name: &str, write: bool, offset: usize) -> Meet {
        for entry in self.entries.iter_mut() {
            if entry.0 == name && entry.1 == write && entry.2 == offset {
                match entry.3 {
                    | FileFault::Interrupted if !entry.4 => {
                        entry.4 = true;
                        self.fired.push(format!("file-{}:{}", if write { "write" } else { "read" }, entry.3.label()));
                        return Meet::Interrupted;
                    }
                    | FileFault::HardOnce(errno) if !entry.4 => {
                        entry.4 = true;
                        self.fired.push(format!("file-{}:{}", if write { "write" } else { "read" }, entry.3.label()));
                        return Meet::Error(errno_kind(errno));
                    }
                    | FileFault::HardForever(errno) => {
                        self.fired.push(format!("file-{}:{}", if write { "write" } else { "read" }, entry.3.label()));
                        return Meet::Error(errno_kind(errno));
                    }
                    | _ => {}
                }
            }
        }
        Meet::Nothing
    }
}

enum ReaderState {
    File { name: Option<String>, data: Vec<u8>, position: usize },
    Directory,
    Closed,
}

enum WriterState {
    File(String),
    DevFull,
    DevNull,
    Closed,
}

fn strip_line(mut bytes: Vec<u8>) -> Vec<u8> {
    if bytes.last() == Some(&b'\n') {
        bytes.pop();
        if bytes.last() == Some(&b'\r') {
            bytes.pop();
        }
    }
    bytes
}

pub fn predict(script: &Script, plan: &Plan, _dir: &PathBuf) -> Expectation {
    let end = plan.early_eof.map(|p| p.min(script.stdin.len())).unwrap_or(script.stdin.len());
    let mut stdin = ModelIn {
        data: script.stdin[..end].to_vec(),
        position: 0,
        faults: plan.in_faults.iter().map(|(p, f)| (*p, *f, false)).collect(),
        fired: vec![],
    };
    stdin.faults.sort_by_key(|(p, _, _)| *p);
    let mut stdout = ModelOut {
        accepted: vec![],
        faults: plan.out_faults.iter().map(|(p, f)| (*p, *f, false)).collect(),
        flush_fails_from: plan.flush_fails_from,
        fired: vec![],
    };
    stdout.faults.sort_by_key(|(p, _, _)| *p);
    let mut files: BTreeMap<String, Option<Vec<u8>>> = BTreeMap::new();
    for name in script.output_file_names() {
        files.insert(name, None);
    }
    for (name, bytes) in &script.preexisting_outputs {
        files.insert(name.clone(), Some(bytes.clone()));
    }
    let inputs: BTreeMap<String, Vec<u8>> = script.input_files.iter().cloned().collect();
    let mut file_plan = FilePlan {
        entries: plan.file_faults.iter().map(|(n, w, p, f)| (n.clone(), *w, *p, *f, false)).collect(),
        fired: vec![],
    };
    let mut readers: BTreeMap<usize, ReaderState> = BTreeMap::new();
    let mut writers: BTreeMap<usize, WriterState> = BTreeMap::new();
    let mut expectation = Expectation {
        path: vec![],
        log: vec![],
        stdout: vec![],
        files: BTreeMap::new(),
        legacy_panic: None,
        continuations: vec![],
        in_faults_fired: vec![],
        out_faults_fired: vec![],
    };

    enum Taken {
        Ok,
        Eof,
        Err(i64),
        Bytes(Vec<u8>),
        Int(i64),
        Fail,
        Panic(String),
    }

    // stream readers -------------------------------------------------------------------
    fn read_upto(stdin: &mut ModelIn, limit: Option<u64>, until_newline: bool) -> Result<Vec<u8>, ErrKind> {
        let mut bytes = Vec::new();
        loop {
            if let Some(limit) = limit {
                if bytes.len() as u64 >= limit {
                    return Ok(bytes);
                }
            }
            match stdin.next() {
                | Item::Byte(byte) => {
                    bytes.push(byte);
                    if until_newline && byte == b'\n' {
                        return Ok(bytes);
                    }
                }
                | Item::Eof => return Ok(bytes),
                | Item::Error(kind) => return Err(kind),
            }
        }
    }
    fn file_upto(
        plan: &mut FilePlan, name: &Option<String>, data: &[u8], position: &mut usize, limit: Option<u64>,
        until_newline: bool,
    ) -> Result<Vec<u8>, i64> {
        let mut bytes = Vec::new();
        loop {
            if let Some(limit) = limit {
                if bytes.len() as u64 >= limit {
                    break;
                }
            }
            // the byte at `position` is needed now: a fault at that file offset is met here
            // (also at end of file: the read that would report EOF starts at that offset)
            if let Some(name) = name {
                loop {
                    match plan.meet(name, false, *position) {
                        | Meet::Nothing => break,
                        | Meet::Interrupted => continue,
                        | Meet::Error(kind) => return Err(kind),
                    }
                }
            }
            if *position >= data.len() {
                break;
            }
            let byte = data[*position];
            *position += 1;
            bytes.push(byte);
            if until_newline && byte == b'\n' {
                break;
            }
        }
        Ok(bytes)
    }

    for (index, op) in script.ops.iter().enumerate() {
        let taken = match op {
            | Opn::OpenReader { path } => match path {
                | PathSpec::In(name) => {
                    readers.insert(
                        index,
                        ReaderState::File { name: Some(name.clone()), data: inputs.get(name).cloned().unwrap_or_default(), position: 0 },
                    );
                    Taken::Ok
                }
                | PathSpec::DevNull => {
                    readers.insert(index, ReaderState::File { name: None, data: vec![], position: 0 });
                    Taken::Ok
                }
                | PathSpec::Directory => {
                    readers.insert(index, ReaderState::Directory);
                    Taken::Ok
                }
                | PathSpec::Missing | PathSpec::MissingDir => Taken::Err(NOT_FOUND),
                | PathSpec::Out(_) | PathSpec::DevFull => Taken::Err(OTHER), // never generated
            },
            | Opn::CreateWriter { path } | Opn::AppendWriter { path } => match path {
                | PathSpec::Out(name) => {
                    let truncate = matches!(op, Opn::CreateWriter { .. });
                    let entry = files.entry(name.clone()).or_insert(None);
                    if truncate || entry.is_none() {
                        *entry = Some(if truncate { vec![] } else { entry.clone().unwrap_or_default() });
                    }
                    writers.insert(index, WriterState::File(name.clone()));
                    Taken::Ok
                }
                | PathSpec::DevFull => {
                    writers.insert(index, WriterState::DevFull);
                    Taken::Ok
                }
                | PathSpec::DevNull => {
                    writers.insert(index, WriterState::DevNull);
                    Taken::Ok
                }
                | PathSpec::Directory => Taken::Err(OTHER),
                | PathSpec::MissingDir => Taken::Err(NOT_FOUND),
                | PathSpec::Missing | PathSpec::In(_) => Taken::Err(OTHER), // never generated
            },
            | Opn::Read { reader, count } if *count < 0 => {
                let _ = reader;
                Taken::Err(INVALID_INPUT)
            }
            | Opn::Read { reader, .. } | Opn::ReadLine { reader } | Opn::ReadAll { reader } => {
                let (limit, line) = match op {
                    | Opn::Read { count, .. } => (Some(*count as u64), false),
                    | Opn::ReadLine { .. } => (None, true),
                    | _ => (None, false),
                };
                let result: Result<Vec<u8>, i64> = match reader {
                    | RRef::Stdin => read_upto(&mut stdin, limit, line).map_err(abi_kind),
                    | RRef::Opened(i) => match readers.get_mut(i) {
                        | Some(ReaderState::File { name, data, position }) => {
                            file_upto(&mut file_plan, name, data, position, limit, line)
                        }
                        // a zero-byte read never reaches the device
                        | Some(ReaderState::Directory) if limit == Some(0) => Ok(vec![]),
                        | Some(ReaderState::Directory) => Err(OTHER),
                        | Some(ReaderState::Closed) | None => Err(CLOSED),
                    },
                };
                match result {
                    | Err(kind) => Taken::Err(kind),
                    | Ok(bytes) if line && bytes.is_empty() => Taken::Eof,
                    | Ok(bytes) if line => Taken::Bytes(strip_line(bytes)),
                    | Ok(bytes) => Taken::Bytes(bytes),
                }
            }
            | Opn::WriteAll { writer, text } => {
                let bytes = text.as_bytes();
                let result = match writer {
                    | WRef::Stdout | WRef::Stderr => stdout.write_all(bytes),
                    | WRef::Opened(i) => match writers.get(i) {
                        | Some(WriterState::File(name)) => {
                            let mut result = Ok(());
                            'bytes: for byte in bytes {
                                let offset = files.get(name).and_then(|f| f.as_ref()).map(|f| f.len()).unwrap_or(0);
                                loop {
                                    match file_plan.meet(name, true, offset) {
                                        | Meet::Nothing => break,
                                        | Meet::Interrupted => continue,
                                        | Meet::Error(kind) => {
                                            result = Err(kind);
                                            break 'bytes;
                                        }
                                    }
                                }
                                files.get_mut(name).and_then(|f| f.as_mut()).map(|f| f.push(*byte));
                            }
                            result
                        }
                        | Some(WriterState::DevFull) if !bytes.is_empty() => Err(OTHER),
                        | Some(WriterState::DevFull) | Some(WriterState::DevNull) => Ok(()),
                        | Some(WriterState::Closed) | None => Err(CLOSED),
                    },
                };
                match result {
                    | Ok(()) => Taken::Ok,
                    | Err(kind) => Taken::Err(kind),
                }
            }
            | Opn::Flush { writer } => {
                let result = match writer {
                    | WRef::Stdout | WRef::Stderr => stdout.flush(),
                    | WRef::Opened(i) => match writers.get(i) {
                        | Some(WriterState::Closed) | None => Err(CLOSED),
                        | Some(_) => Ok(()),
                    },
                };
                match result {
                    | Ok(()) => Taken::Ok,
                    | Err(kind) => Taken::Err(kind),
                }
            }
            | Opn::CloseReader { reader } => match reader {
                | RRef::Stdin => Taken::Ok, // standard input survives `close`
                | RRef::Opened(i) => match readers.get(i) {
                    | Some(ReaderState::Closed) | None => Taken::Err(CLOSED),
                    | Some(_) => {
                        readers.insert(*i, ReaderState::Closed);
                        Taken::Ok
                    }
                },
            },
            | Opn::CloseWriter { writer } => match writer {
                | WRef::Stdout | WRef::Stderr => match stdout.flush() {
                    | Ok(()) => Taken::Ok,
                    | Err(kind) => Taken::Err(kind),
                },
                | WRef::Opened(i) => match writers.get(i) {
                    | Some(WriterState::Closed) | None => Taken::Err(CLOSED),
                    | Some(_) => {
                        writers.insert(*i, WriterState::Closed);
                        Taken::Ok
                    }
                },
            },
            | Opn::LegacyWrite { .. } | Opn::LegacyWriteLine { .. } | Opn::LegacyWriteInt { .. } => {
                let bytes: Vec<u8> = match op {
                    | Opn::LegacyWrite { text } => text.as_bytes().to_vec(),
                    | Opn::LegacyWriteLine { text } => format!("{text}\n").into_bytes(),
                    | Opn::LegacyWriteInt { number } => number.to_string().into_bytes(),
                    | _ => unreachable!(),
                };
                match stdout.write_all(&bytes).and_then(|()| stdout.flush()) {
                    | Ok(()) => Taken::Ok,
                    | Err(_) => Taken::Panic("legacy standard-output write failed (documented legacy expect)".into()),
                }
            }
            | Opn::LegacyReadLine | Opn::LegacyReadInt | Opn::LegacyReadAll => {
                let line = !matches!(op, Opn::LegacyReadAll);
                match read_upto(&mut stdin, None, line) {
                    | Err(_) => Taken::Panic("legacy standard-input read failed (documented legacy expect)".into()),
                    | Ok(bytes) => match String::from_utf8(bytes) {
                        | Err(_) => Taken::Panic("legacy standard-input read failed (invalid UTF-8; documented legacy expect)".into()),
                        | Ok(mut text) => {
                            if line && text.ends_with('\n') {
                                text.pop();
                                if text.ends_with('\r') {
                                    text.pop();
                                }
                            }
                            if matches!(op, Opn::LegacyReadInt) {
                                match text.parse::<i64>() {
                                    | Ok(number) => Taken::Int(number),
                                    | Err(_) => Taken::Fail,
                                }
                            } else {
                                Taken::Bytes(text.into_bytes())
                            }
                        }
                    },
                }
            }
        };
        let tag = |name: &str| format!("{}:{name}", op.label().split('(').next().unwrap_or("?"));
        match taken {
            | Taken::Ok => {
                expectation.path.push(Outcome::Ok);
                expectation.log.extend_from_slice(format!("{index}:ok\n").as_bytes());
                expectation.continuations.push(tag("ok"));
            }
            | Taken::Eof => {
                expectation.path.push(Outcome::Eof);
                expectation.log.extend_from_slice(format!("{index}:eof\n").as_bytes());
                expectation.continuations.push(tag("eof"));
            }
            | Taken::Err(kind) => {
                expectation.path.push(Outcome::Err(kind));
                expectation.log.extend_from_slice(format!("{index}:err:{kind}\n").as_bytes());
                expectation.continuations.push(tag(&format!("err{kind}")));
            }
            | Taken::Bytes(bytes) => {
                expectation.path.push(Outcome::Bytes);
                expectation.log.extend_from_slice(format!("{index}:bytes:{}:", bytes.len()).as_bytes());
                expectation.log.extend_from_slice(&bytes);
                expectation.log.push(b'\n');
                expectation.continuations.push(tag("bytes"));
            }
            | Taken::Int(number) => {
                expectation.path.push(Outcome::Int);
                expectation.log.extend_from_slice(format!("{index}:int:{number}\n").as_bytes());
                expectation.continuations.push(tag("int"));
            }
            | Taken::Fail => {
                expectation.path.push(Outcome::Fail);
                expectation.log.extend_from_slice(format!("{index}:fail\n").as_bytes());
                expectation.continuations.push(tag("fail"));
            }
            | Taken::Panic(message) => {
                expectation.path.push(Outcome::LegacyPanic);
                expectation.legacy_panic = Some(message);
                expectation.continuations.push(tag("legacy-panic"));
                break;
            }
        }
    }
    expectation.stdout = stdout.accepted.clone();
    expectation.files = files;
    expectation.in_faults_fired = stdin.fired;
    expectation.out_faults_fired = stdout.fired;
    expectation.out_faults_fired.extend(file_plan.fired);
    expectation
}
