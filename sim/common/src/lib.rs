//! Shared pieces of the simulators: the one PRNG every choice is drawn from, the
//! entropy seam (shim FFI), forked run isolation and small JSON helpers.

use std::io::{Read, Write};

pub use serde_json::{Value, json};

pub const DEFAULT_SEED: u64 = 20260925;

/// SplitMix64. Implemented here (not `rand`) so the streams never change.
#[derive(Clone, Debug)]
pub struct Rng {
    state: u64,
}

impl Rng {
    pub fn new(seed: u64) -> Self {
        Self { state: seed }
    }
    pub fn next_u64(&mut self) -> u64 {
        self.state = self.state.wrapping_add(0x9E3779B97F4A7C15);
        let mut z = self.state;
        z = (z ^ (z >> 30)).wrapping_mul(0xBF58476D1CE4E5B9);
        z = (z ^ (z >> 27)).wrapping_mul(0x94D049BB133111EB);
        z ^ (z >> 31)
    }
    /// Uniform in `0..n` (n > 0).
    pub fn below(&mut self, n: usize) -> usize {
        debug_assert!(n > 0);
        (self.next_u64() % n as u64) as usize
    }
    pub fn range(&mut self, lo: usize, hi_inclusive: usize) -> usize {
        lo + self.below(hi_inclusive - lo + 1)
    }
    pub fn chance(&mut self, num: usize, den: usize) -> bool {
        self.below(den) < num
    }
    pub fn pick<'a, T>(&mut self, items: &'a [T]) -> &'a T {
        &items[self.below(items.len())]
    }
    pub fn weighted(&mut self, weights: &[usize]) -> usize {
        let total: usize = weights.iter().sum();
        let mut roll = self.below(total.max(1));
        for (index, weight) in weights.iter().enumerate() {
            if roll < *weight {
                return index;
            }
            roll -= *weight;
        }
        weights.len() - 1
    }
    pub fn shuffle<T>(&mut self, items: &mut [T]) {
        for i in (1..items.len()).rev() {
            let j = self.below(i + 1);
            items.swap(i, j);
        }
    }
    pub fn fork(&mut self) -> Rng {
        Rng::new(self.next_u64())
    }
}

/// `seed_i = mix(master, engine, i)`.
pub fn mix(master: u64, engine: u64, index: u64) -> u64 {
    let mut rng = Rng::new(master ^ engine.wrapping_mul(0xA24BAED4963EE407));
    let a = rng.next_u64();
    let mut rng = Rng::new(a ^ index.wrapping_mul(0x9FB21C651E98DF25));
    rng.next_u64()
}

pub fn fnv1a(bytes: &[u8]) -> u64 {
    let mut hash = 0xcbf29ce484222325u64;
    for byte in bytes {
        hash ^= *byte as u64;
        hash = hash.wrapping_mul(0x100000001b3);
    }
    hash
}

/// The entropy seam: functions exported by the LD_PRELOADed `libzysim.so`.
pub mod shim {
    type Reseed = unsafe extern "C" fn(u64);
    type Active = unsafe extern "C" fn() -> i32;

    fn lookup(name: &[u8]) -> *mut libc::c_void {
        unsafe { libc::dlsym(libc::RTLD_DEFAULT, name.as_ptr() as *const libc::c_char) }
    }

    pub fn present() -> bool {
        !lookup(b"zysim_reseed\0").is_null()
    }

    /// Reseed the process entropy stream. Returns false when the shim is not loaded.
    pub fn reseed(seed: u64) -> bool {
        let symbol = lookup(b"zysim_reseed\0");
        if symbol.is_null() {
            return false;
        }
        let function: Reseed = unsafe { std::mem::transmute(symbol) };
        unsafe { function(seed) };
        true
    }

    pub fn active() -> bool {
        let symbol = lookup(b"zysim_is_active\0");
        if symbol.is_null() {
            return false;
        }
        let function: Active = unsafe { std::mem::transmute(symbol) };
        unsafe { function() != 0 }
    }
}

/// Outcome of one forked child.
#[derive(Debug)]
pub enum ChildOutcome {
    /// The child wrote this record and exited 0.
    Record(Vec<u8>),
    /// The child died (abort, stack overflow, non-zero exit): status + whatever it wrote.
    Crashed { status: i32, signal: i32, partial: Vec<u8>, stderr: Vec<u8> },
    /// The wall-clock safety net fired.
    TimedOut,
}

/// Run `body` in a forked child; the child writes its record to a pipe.
/// The parent must be single-threaded at the time of the call.
pub fn run_forked<F>(timeout_s: u64, body: F) -> ChildOutcome
where
    F: FnOnce() -> Vec<u8>,
{
    let mut data_pipe = [0i32; 2];
    let mut err_pipe = [0i32; 2];
    unsafe {
        assert_eq!(libc::pipe(data_pipe.as_mut_ptr()), 0);
        assert_eq!(libc::pipe(err_pipe.as_mut_ptr()), 0);
    }
    std::io::stdout().flush().ok();
    std::io::stderr().flush().ok();
    let pid = unsafe { libc::fork() };
    assert!(pid >= 0, "fork failed");
    if pid == 0 {
        unsafe {
            libc::close(data_pipe[0]);
            libc::close(err_pipe[0]);
            libc::dup2(err_pipe[1], 2);
            libc::close(err_pipe[1]);
            // A deep-recursion safety margin: the simulators run compiler passes on
            // the main stack of the child.
        }
        let record = body();
        let mut offset = 0;
        while offset < record.len() {
            let written = unsafe {
                libc::write(
                    data_pipe[1],
                    record[offset..].as_ptr() as *const libc::c_void,
                    record.len() - offset,
                )
            };
            if written <= 0 {
                break;
            }
            offset += written as usize;
        }
        unsafe { libc::_exit(0) };
    }
    unsafe {
        libc::close(data_pipe[1]);
        libc::close(err_pipe[1]);
    }
    // Read both pipes until EOF with a poll loop and a deadline.
    let start = std::time::Instant::now();
    let mut record = Vec::new();
    let mut stderr = Vec::new();
    let mut open = [true, true];
    let fds = [data_pipe[0], err_pipe[0]];
    let mut timed_out = false;
    while open[0] || open[1] {
        let remaining = (timeout_s as i64 * 1000) - start.elapsed().as_millis() as i64;
        if remaining <= 0 {
            timed_out = true;
            break;
        }
        let mut polls: Vec<libc::pollfd> = Vec::new();
        for index in 0..2 {
            if open[index] {
                polls.push(libc::pollfd { fd: fds[index], events: libc::POLLIN, revents: 0 });
            }
        }
        let ready = unsafe {
            libc::poll(polls.as_mut_ptr(), polls.len() as libc::nfds_t, remaining.min(1000) as i32)
        };
        if ready <= 0 {
            continue;
        }
        for poll in polls {
            if poll.revents == 0 {
                continue;
            }
            let index = if poll.fd == fds[0] { 0 } else { 1 };
            let mut buffer = [0u8; 65536];
            let count = unsafe {
                libc::read(poll.fd, buffer.as_mut_ptr() as *mut libc::c_void, buffer.len())
            };
            if count <= 0 {
                open[index] = false;
            } else {
                let target = if index == 0 { &mut record } else { &mut stderr };
                if target.len() < (64 << 20) {
                    target.extend_from_slice(&buffer[..count as usize]);
                }
            }
        }
    }
    if timed_out {
        unsafe {
            libc::kill(pid, libc::SIGKILL);
        }
    }
    let mut status = 0i32;
    unsafe {
        libc::waitpid(pid, &mut status, 0);
        libc::close(data_pipe[0]);
        libc::close(err_pipe[0]);
    }
    if timed_out {
        return ChildOutcome::TimedOut;
    }
    if libc::WIFEXITED(status) && libc::WEXITSTATUS(status) == 0 {
        ChildOutcome::Record(record)
    } else {
        ChildOutcome::Crashed {
            status: if libc::WIFEXITED(status) { libc::WEXITSTATUS(status) } else { -1 },
            signal: if libc::WIFSIGNALED(status) { libc::WTERMSIG(status) } else { 0 },
            partial: record,
            stderr,
        }
    }
}

/// Run `body` on a thread with a large stack and return its result (panics propagate
/// as `Err(message)`).
pub fn with_big_stack<T: Send + 'static>(
    bytes: usize, body: impl FnOnce() -> T + Send + 'static,
) -> Result<T, String> {
    let handle = std::thread::Builder::new().stack_size(bytes).spawn(body).expect("spawn");
    handle.join().map_err(|payload| panic_message(&*payload))
}

pub fn panic_message(payload: &(dyn std::any::Any + Send)) -> String {
    if let Some(text) = payload.downcast_ref::<&str>() {
        (*text).to_string()
    } else if let Some(text) = payload.downcast_ref::<String>() {
        text.clone()
    } else {
        "<non-string panic payload>".to_string()
    }
}

pub fn read_file(path: &std::path::Path) -> std::io::Result<Vec<u8>> {
    let mut bytes = Vec::new();
    std::fs::File::open(path)?.read_to_end(&mut bytes)?;
    Ok(bytes)
}

/// Strip ANSI escape sequences (ariadne colour codes).
pub fn strip_ansi(text: &str) -> String {
    let mut output = String::with_capacity(text.len());
    let mut chars = text.chars().peekable();
    while let Some(ch) = chars.next() {
        if ch == '\u{1b}' {
            if chars.peek() == Some(&'[') {
                chars.next();
                for inner in chars.by_ref() {
                    if ('@'..='~').contains(&inner) {
                        break;
                    }
                }
            }
        } else {
            output.push(ch);
        }
    }
    output
}

/// Environment helpers.
pub fn env_u64(name: &str, default: u64) -> u64 {
    std::env::var(name).ok().and_then(|text| text.trim().parse().ok()).unwrap_or(default)
}

pub fn master_seed() -> u64 {
    env_u64("VERIF_SEED", DEFAULT_SEED)
}

/// The scratch directory of one run: a pure function of (engine, master seed, run index) —
/// never of the pid or the worker count — because paths are hashed and compared by the code
/// under test, so a different spelling is a different execution.
pub fn run_directory(engine: &str, seed: u64, index: u64) -> std::path::PathBuf {
    let base = if std::path::Path::new("/dev/shm").is_dir() { "/dev/shm" } else { "/verif/scratch" };
    let dir = std::path::PathBuf::from(base).join("zysim").join(format!("{engine}-{seed:020}-{index:08}"));
    let _ = std::fs::remove_dir_all(&dir);
    std::fs::create_dir_all(&dir).expect("create scratch directory");
    dir.canonicalize().expect("canonical scratch directory")
}
