//! E5a `graphsim` — C08, graph level.
//!
//! `zydeco_utils::graph` computes SCCs (Kosaraju) and serves them through the
//! incremental `top`/`release` protocol over `std` hash maps, so for one fixed input
//! the path taken depends on the process's hidden SipHash key.  This simulator owns
//! that key (through the `zysim` entropy seam): every case = (sequence of
//! `DepGraph::add` calls, hash key, release plan) runs on a fresh OS thread whose
//! `RandomState` keys are redrawn from the seam, and is judged against reference
//! SCCs obtained from a transitive closure.
//!
//! usage: graphsim run --shard I/N --tier quick|thorough --seed S --out FILE
//!        graphsim replay FILE

use std::collections::{BTreeMap, BTreeSet};
use zydeco_utils::graph::{DepGraph, Kosaraju};
use zysim_common::{Rng, Value, json, mix, shim};

const ENGINE: u64 = 5;

#[derive(Clone, Debug)]
struct Case {
    /// The sequence of `DepGraph::add(id, deps)` calls.
    adds: Vec<(u32, Vec<u32>)>,
    /// Hash key handed to the entropy seam before the case thread starts.
    key: u64,
    /// Seeds the release plan.
    plan: u64,
    /// 0 = release everything `top` returned (the production protocol of
    /// `BindingContext::from_bindings`), 1 = release one whole group per step,
    /// 2 = release a non-empty part of one group per step (as `test_scc_1` does).
    mode: u8,
}

impl Case {
    fn to_json(&self) -> Value {
        json!({
            "adds": self.adds.iter().map(|(id, deps)| json!([id, deps])).collect::<Vec<_>>(),
            "key": self.key.to_string(),
            "plan": self.plan.to_string(),
            "mode": self.mode,
        })
    }
    fn from_json(value: &Value) -> Option<Self> {
        let adds = value["adds"]
            .as_array()?
            .iter()
            .map(|entry| {
                let id = entry[0].as_u64()? as u32;
                let deps =
                    entry[1].as_array()?.iter().map(|d| d.as_u64().map(|d| d as u32)).collect::<Option<Vec<_>>>()?;
                Some((id, deps))
            })
            .collect::<Option<Vec<_>>>()?;
        Some(Self {
            adds,
            key: value["key"].as_str()?.parse().ok()?,
            plan: value["plan"].as_str()?.parse().ok()?,
            mode: value["mode"].as_u64()? as u8,
        })
    }
    fn nodes(&self) -> BTreeSet<u32> {
        self.adds.iter().flat_map(|(id, deps)| std::iter::once(*id).chain(deps.iter().copied())).collect()
    }
    fn edges(&self) -> BTreeSet<(u32, u32)> {
        self.adds.iter().flat_map(|(id, deps)| deps.iter().map(move |dep| (*id, *dep))).collect()
    }
}

/// Reference model: SCCs by transitive closure, component dependencies.
struct Reference {
    component_of: BTreeMap<u32, usize>,
    components: Vec<BTreeSet<u32>>,
    depends_on: Vec<BTreeSet<usize>>,
}

impl Reference {
    fn new(case: &Case) -> Self {
        let nodes: Vec<u32> = case.nodes().into_iter().collect();
        let index: BTreeMap<u32, usize> = nodes.iter().enumerate().map(|(i, n)| (*n, i)).collect();
        let count = nodes.len();
        let mut reach = vec![vec![false; count]; count];
        for (from, to) in case.edges() {
            reach[index[&from]][index[&to]] = true;
        }
        for i in 0..count {
            reach[i][i] = true;
        }
        for k in 0..count {
            for i in 0..count {
                if reach[i][k] {
                    for j in 0..count {
                        if reach[k][j] {
                            reach[i][j] = true;
                        }
                    }
                }
            }
        }
        let mut component_of = BTreeMap::new();
        let mut components: Vec<BTreeSet<u32>> = Vec::new();
        for i in 0..count {
            if component_of.contains_key(&nodes[i]) {
                continue;
            }
            let members: BTreeSet<u32> =
                (0..count).filter(|j| reach[i][*j] && reach[*j][i]).map(|j| nodes[j]).collect();
            let id = components.len();
            for member in &members {
                component_of.insert(*member, id);
            }
            components.push(members);
        }
        let mut depends_on = vec![BTreeSet::new(); components.len()];
        for (from, to) in case.edges() {
            let (a, b) = (component_of[&from], component_of[&to]);
            if a != b {
                depends_on[a].insert(b);
            }
        }
        Self { component_of, components, depends_on }
    }
}

#[derive(Debug, Default)]
struct Trace {
    steps: Vec<Value>,
    violation: Option<String>,
    /// top() omitted a component that was ready (statistic only; not a violation).
    incomplete_top_steps: usize,
    piecemeal_steps: usize,
    yielded_order: Vec<Vec<u32>>,
}

/// Execute one case on the *current* thread (whose hash keys are fresh).
fn execute(case: &Case) -> Trace {
    let mut trace = Trace::default();
    let reference = Reference::new(case);
    let mut graph: DepGraph<u32> = DepGraph::new();
    for (id, deps) in &case.adds {
        graph.add(*id, deps.iter().copied());
    }
    let mut scc = Kosaraju::new(&graph).run();
    let mut rng = Rng::new(case.plan);
    let all_nodes = case.nodes();
    let mut released: BTreeSet<u32> = BTreeSet::new();
    // first step at which each component was offered / fully released
    let mut first_offered: BTreeMap<usize, usize> = BTreeMap::new();
    let budget = all_nodes.len() * 3 + 8;
    let mut step = 0usize;
    loop {
        if step > budget {
            trace.violation = Some(format!("top/release did not terminate within {budget} steps"));
            return trace;
        }
        let top = scc.top();
        let groups: Vec<BTreeSet<u32>> = top.iter().map(|group| group.iter().copied().collect()).collect();
        let mut sorted = groups.clone();
        sorted.sort();
        trace.steps.push(json!({"top": sorted.iter().map(|g| g.iter().collect::<Vec<_>>()).collect::<Vec<_>>()}));
        if groups.is_empty() {
            break;
        }
        let mut seen_components = BTreeSet::new();
        for group in &groups {
            if group.is_empty() {
                trace.violation = Some(format!("step {step}: top returned an empty group"));
                return trace;
            }
            let first = *group.iter().next().unwrap();
            let Some(component) = reference.component_of.get(&first).copied() else {
                trace.violation = Some(format!("step {step}: top returned unknown node {first}"));
                return trace;
            };
            if let Some(stranger) = group.iter().find(|m| reference.component_of.get(*m) != Some(&component)) {
                trace.violation = Some(format!(
                    "step {step}: group {group:?} mixes components (node {stranger} is not strongly connected to {first})"
                ));
                return trace;
            }
            if let Some(again) = group.iter().find(|m| released.contains(*m)) {
                trace.violation = Some(format!("step {step}: node {again} offered again after release"));
                return trace;
            }
            let expected: BTreeSet<u32> =
                reference.components[component].difference(&released).copied().collect();
            if *group != expected {
                trace.violation = Some(format!(
                    "step {step}: group {group:?} is not the whole remaining component {expected:?}"
                ));
                return trace;
            }
            if !seen_components.insert(component) {
                trace.violation = Some(format!("step {step}: component {expected:?} offered twice in one top()"));
                return trace;
            }
            for dependency in &reference.depends_on[component] {
                if !reference.components[*dependency].is_subset(&released) {
                    trace.violation = Some(format!(
                        "step {step}: component {:?} offered before its dependency {:?} was released",
                        reference.components[component], reference.components[*dependency]
                    ));
                    return trace;
                }
            }
            first_offered.entry(component).or_insert(step);
        }
        // statistic: was every ready component offered?
        let ready_count = reference
            .components
            .iter()
            .enumerate()
            .filter(|(id, members)| {
                !members.is_subset(&released)
                    && reference.depends_on[*id].iter().all(|d| reference.components[*d].is_subset(&released))
            })
            .count();
        if ready_count != groups.len() {
            trace.incomplete_top_steps += 1;
        }
        // choose what to release
        let mut ordered = groups.clone();
        ordered.sort();
        let to_release: Vec<u32> = match case.mode {
            | 0 => {
                for group in &ordered {
                    trace.yielded_order.push(group.iter().copied().collect());
                }
                // keep top()'s own (hash) order, as the production caller does
                top.iter().flat_map(|group| group.iter().copied()).collect()
            }
            | 1 => {
                let group = rng.pick(&ordered).clone();
                trace.yielded_order.push(group.iter().copied().collect());
                let mut ids: Vec<u32> = group.into_iter().collect();
                rng.shuffle(&mut ids);
                ids
            }
            | _ => {
                let group = rng.pick(&ordered).clone();
                let mut ids: Vec<u32> = group.into_iter().collect();
                rng.shuffle(&mut ids);
                let keep = rng.range(1, ids.len());
                if keep < ids.len() {
                    trace.piecemeal_steps += 1;
                }
                ids.truncate(keep);
                ids
            }
        };
        trace.steps.push(json!({"release": to_release}));
        released.extend(to_release.iter().copied());
        scc.release(to_release);
        step += 1;
    }
    if released != all_nodes {
        let missing: Vec<u32> = all_nodes.difference(&released).copied().collect();
        trace.violation =
            Some(format!("top() became empty although nodes {missing:?} were never yielded"));
    }
    trace
}

/// Run a case on a fresh thread under the given hash key; panics become violations.
fn run_case(case: &Case) -> Trace {
    shim::reseed(case.key);
    let owned = case.clone();
    let handle = std::thread::Builder::new()
        .stack_size(4 << 20)
        .spawn(move || execute(&owned))
        .expect("spawn case thread");
    match handle.join() {
        | Ok(trace) => trace,
        | Err(payload) => Trace {
            violation: Some(format!("panic: {}", zysim_common::panic_message(&*payload))),
            ..Trace::default()
        },
    }
}

fn violation_class(message: &str) -> String {
    // class = message with numbers and sets removed
    let mut class = String::new();
    let mut depth = 0;
    for ch in message.chars() {
        match ch {
            | '{' | '[' => depth += 1,
            | '}' | ']' => depth -= 1,
            | c if depth == 0 && !c.is_ascii_digit() => class.push(c),
            | _ => {}
        }
    }
    class
}

/// Greedy minimisation: drop add-calls, drop single deps, simplify mode, while the same
/// violation class persists under the same key.
fn minimise(case: &Case, class: &str) -> Case {
    let mut best = case.clone();
    let fails = |candidate: &Case| -> bool {
        candidate.adds.len() > 0
            && run_case(candidate).violation.as_deref().map(violation_class).as_deref() == Some(class)
    };
    let mut progress = true;
    while progress {
        progress = false;
        for index in 0..best.adds.len() {
            let mut candidate = best.clone();
            candidate.adds.remove(index);
            if fails(&candidate) {
                best = candidate;
                progress = true;
                break;
            }
        }
        if progress {
            continue;
        }
        'outer: for index in 0..best.adds.len() {
            for dep in 0..best.adds[index].1.len() {
                let mut candidate = best.clone();
                candidate.adds[index].1.remove(dep);
                if fails(&candidate) {
                    best = candidate;
                    progress = true;
                    break 'outer;
                }
            }
        }
        if !progress && best.mode != 0 {
            let mut candidate = best.clone();
            candidate.mode = 0;
            if fails(&candidate) {
                best = candidate;
                progress = true;
            }
        }
    }
    best
}

/// Enumerate every digraph on exactly `n` labelled nodes (self-loops allowed) where every
/// node occurs in at least one add call or edge; each sink that has an incoming edge is
/// taken both declared (`add(id, [])`) and undeclared (dependency target only).
fn enumerate(n: u32, mut visit: impl FnMut(Vec<(u32, Vec<u32>)>)) {
    let pairs: Vec<(u32, u32)> = (0..n).flat_map(|a| (0..n).map(move |b| (a, b))).collect();
    for mask in 0u64..(1u64 << pairs.len()) {
        let mut out: BTreeMap<u32, Vec<u32>> = BTreeMap::new();
        let mut has_incoming = BTreeSet::new();
        for (bit, (a, b)) in pairs.iter().enumerate() {
            if mask >> bit & 1 == 1 {
                out.entry(*a).or_default().push(*b);
                has_incoming.insert(*b);
            }
        }
        let sinks: Vec<u32> = (0..n).filter(|node| !out.contains_key(node)).collect();
        let optional: Vec<u32> = sinks.iter().copied().filter(|s| has_incoming.contains(s)).collect();
        for declared_mask in 0u32..(1 << optional.len()) {
            let mut adds: Vec<(u32, Vec<u32>)> = Vec::new();
            for node in 0..n {
                if let Some(deps) = out.get(&node) {
                    adds.push((node, deps.clone()));
                } else if let Some(position) = optional.iter().position(|s| *s == node) {
                    if declared_mask >> position & 1 == 1 {
                        adds.push((node, vec![]));
                    }
                } else {
                    adds.push((node, vec![])); // isolated sink: must be declared to exist
                }
            }
            visit(adds);
        }
    }
}

fn random_case_adds(rng: &mut Rng) -> Vec<(u32, Vec<u32>)> {
    let n = rng.range(3, 10) as u32;
    // sparse ids so that hash placement varies
    let ids: Vec<u32> = {
        let mut ids = BTreeSet::new();
        while ids.len() < n as usize {
            let span = if rng.chance(1, 2) { 16 } else { 100000 };
            ids.insert(rng.below(span) as u32);
        }
        let mut ids: Vec<u32> = ids.into_iter().collect();
        rng.shuffle(&mut ids);
        ids
    };
    let density = rng.range(1, 4);
    let mut adds: Vec<(u32, Vec<u32>)> = Vec::new();
    for from in &ids {
        let mut deps = Vec::new();
        for to in &ids {
            if rng.chance(density, 2 * n as usize) {
                deps.push(*to);
            }
        }
        if deps.is_empty() && rng.chance(1, 3) {
            continue; // possibly a dependency-target-only node (or absent)
        }
        if deps.len() >= 2 && rng.chance(1, 3) {
            // the same node extended by two add calls
            let split = rng.range(1, deps.len() - 1);
            let tail = deps.split_off(split);
            adds.push((*from, deps));
            adds.push((*from, tail));
        } else {
            adds.push((*from, deps));
        }
    }
    // planted structures: a long cycle, two edges into one component
    if rng.chance(1, 2) && ids.len() >= 3 {
        let len = rng.range(2, ids.len().min(5));
        for i in 0..len {
            adds.push((ids[i], vec![ids[(i + 1) % len]]));
        }
    }
    rng.shuffle(&mut adds);
    if adds.is_empty() {
        adds.push((ids[0], vec![]));
    }
    adds
}

fn abstract_shape(case: &Case) -> (u64, usize) {
    // distinct measure: the labelled graph (nodes+edges+declared set), ignoring key/plan
    let text = format!("{:?}|{:?}", case.edges(), case.adds.iter().map(|a| a.0).collect::<BTreeSet<_>>());
    let reference = Reference::new(case);
    let nontrivial = reference.components.iter().filter(|c| c.len() > 1).count()
        + case.edges().iter().filter(|(a, b)| a == b).count();
    (zysim_common::fnv1a(text.as_bytes()), nontrivial)
}

struct Totals {
    evaluations: u64,
    graphs: BTreeSet<u64>,
    cyclic_graphs: BTreeSet<u64>,
    keys: BTreeSet<u64>,
    orders: BTreeSet<u64>,
    incomplete_top_steps: u64,
    piecemeal_steps: u64,
    target_only_cases: u64,
    steps: u64,
    exhaustive_graphs: BTreeMap<u32, u64>,
    samples: Vec<Value>,
    violations: Vec<Value>,
    order_variation: u64,
}

fn main() {
    let args: Vec<String> = std::env::args().collect();
    match args.get(1).map(String::as_str) {
        | Some("run") => run(&args[2..]),
        | Some("replay") => replay(&args[2]),
        | _ => {
            eprintln!("usage: graphsim run --shard I/N --tier T --seed S --out FILE | replay FILE");
            std::process::exit(2);
        }
    }
}

fn argument<'a>(args: &'a [String], name: &str) -> Option<&'a str> {
    args.iter().position(|a| a == name).and_then(|i| args.get(i + 1)).map(String::as_str)
}

fn run(args: &[String]) {
    if !shim::present() {
        eprintln!("graphsim: the zysim entropy seam is not loaded (LD_PRELOAD)");
        std::process::exit(2);
    }
    let (shard, shards) = argument(args, "--shard")
        .and_then(|s| s.split_once('/'))
        .map(|(a, b)| (a.parse::<u64>().unwrap(), b.parse::<u64>().unwrap()))
        .unwrap_or((0, 1));
    let tier = argument(args, "--tier").unwrap_or("quick").to_string();
    let seed: u64 = argument(args, "--seed").and_then(|s| s.parse().ok()).unwrap_or(zysim_common::DEFAULT_SEED);
    let out = argument(args, "--out").expect("--out").to_string();
    let thorough = tier == "thorough";
    let keys_small = if thorough { 64 } else { 16 };
    let keys_four = if thorough { 6 } else { 1 };
    let random_graphs: u64 = if thorough { 200_000 } else { 20_000 };
    let keys_random = if thorough { 16 } else { 8 };

    let mut totals = Totals {
        evaluations: 0,
        graphs: BTreeSet::new(),
        cyclic_graphs: BTreeSet::new(),
        keys: BTreeSet::new(),
        orders: BTreeSet::new(),
        incomplete_top_steps: 0,
        piecemeal_steps: 0,
        target_only_cases: 0,
        steps: 0,
        exhaustive_graphs: BTreeMap::new(),
        samples: Vec::new(),
        violations: Vec::new(),
        order_variation: 0,
    };
    let mut case_index: u64 = 0;
    let mut judge = |adds: Vec<(u32, Vec<u32>)>, keys: u64, totals: &mut Totals, tag: &str| {
        let my_index = case_index;
        case_index += 1;
        if my_index % shards != shard {
            return;
        }
        let mut orders_here = BTreeSet::new();
        for k in 0..keys {
            let run_seed = mix(seed, ENGINE, my_index * 1024 + k);
            let mut rng = Rng::new(run_seed);
            let case = Case { adds: adds.clone(), key: rng.next_u64(), plan: rng.next_u64(), mode: (k % 3) as u8 };
            let trace = run_case(&case);
            totals.evaluations += 1;
            totals.keys.insert(case.key);
            totals.steps += trace.steps.len() as u64;
            totals.incomplete_top_steps += trace.incomplete_top_steps as u64;
            totals.piecemeal_steps += trace.piecemeal_steps as u64;
            if k == 0 {
                let (shape, nontrivial) = abstract_shape(&case);
                totals.graphs.insert(shape);
                if nontrivial > 0 {
                    totals.cyclic_graphs.insert(shape);
                }
                let declared: BTreeSet<u32> = case.adds.iter().map(|a| a.0).collect();
                if case.nodes().iter().any(|n| !declared.contains(n)) {
                    totals.target_only_cases += 1;
                }
            }
            if case.mode == 0 {
                let order = zysim_common::fnv1a(format!("{:?}", trace.yielded_order).as_bytes());
                orders_here.insert(order);
                totals.orders.insert(order);
            }
            if totals.samples.len() < 4 && (my_index % 97 == 3 || tag == "random") && k == 0 {
                totals.samples.push(json!({"family": tag, "case": case.to_json(), "steps": trace.steps}));
            }
            if let Some(message) = &trace.violation {
                if totals.violations.len() < 5 {
                    let class = violation_class(message);
                    let minimal = minimise(&case, &class);
                    let replayed = run_case(&minimal);
                    totals.violations.push(json!({
                        "property": "C08",
                        "engine": "graphsim",
                        "seed": seed.to_string(),
                        "run_seed": run_seed.to_string(),
                        "family": tag,
                        "original": case.to_json(),
                        "case": minimal.to_json(),
                        "message": replayed.violation.clone().unwrap_or_else(|| message.clone()),
                        "class": class,
                        "steps": replayed.steps,
                    }));
                }
            }
        }
        if orders_here.len() > 1 {
            totals.order_variation += 1;
        }
    };

    for n in 1..=3u32 {
        let mut count = 0u64;
        enumerate(n, |adds| {
            count += 1;
            judge(adds, keys_small, &mut totals, "exhaustive<=3");
        });
        totals.exhaustive_graphs.insert(n, count);
    }
    {
        let mut count = 0u64;
        enumerate(4, |adds| {
            count += 1;
            judge(adds, keys_four, &mut totals, "exhaustive4");
        });
        totals.exhaustive_graphs.insert(4, count);
    }
    let mut generator = Rng::new(mix(seed, ENGINE, u64::MAX));
    for _ in 0..random_graphs {
        let adds = random_case_adds(&mut generator);
        judge(adds, keys_random, &mut totals, "random");
    }

    let record = json!({
        "shard": shard, "shards": shards, "tier": tier, "seed": seed.to_string(),
        "evaluations": totals.evaluations,
        "graphs": totals.graphs.iter().map(|g| g.to_string()).collect::<Vec<_>>(),
        "cyclic_graphs": totals.cyclic_graphs.iter().map(|g| g.to_string()).collect::<Vec<_>>(),
        "distinct_keys": totals.keys.len(),
        "distinct_yield_orders": totals.orders.len(),
        "graphs_whose_yield_order_varied_with_key": totals.order_variation,
        "incomplete_top_steps": totals.incomplete_top_steps,
        "piecemeal_steps": totals.piecemeal_steps,
        "target_only_cases": totals.target_only_cases,
        "logical_steps": totals.steps,
        "exhaustive_graphs_by_nodes": totals.exhaustive_graphs,
        "samples": totals.samples,
        "violations": totals.violations,
    });
    std::fs::write(&out, serde_json::to_vec(&record).unwrap()).expect("write shard record");
}

fn replay(path: &str) {
    if !shim::present() {
        eprintln!("graphsim: the zysim entropy seam is not loaded (LD_PRELOAD)");
        std::process::exit(2);
    }
    let text = std::fs::read_to_string(path).expect("read replay file");
    let value: Value = serde_json::from_str(&text).expect("parse replay file");
    let case = Case::from_json(&value["case"]).expect("replay file has no case");
    let trace = run_case(&case);
    println!("{}", serde_json::to_string_pretty(&json!({"case": case.to_json(), "steps": trace.steps})).unwrap());
    match trace.violation {
        | Some(message) => {
            println!("REPRODUCED property=C08 message={message}");
            std::process::exit(1);
        }
        | None => {
            println!("NOT-REPRODUCED property=C08");
            std::process::exit(0);
        }
    }
}
