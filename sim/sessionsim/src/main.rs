//! E2 `sessionsim` — history simulation of a long-lived `CompilerSession` over a real,
//! faulty scratch directory, against a fresh-session oracle (C15) and a reference graph
//! model (C09).  Every run executes in its own forked child under a reseeded entropy
//! seam, so a run is a pure function of (seed, tree).
//!
//! usage: sessionsim run --focus C15|C09 --tier quick|thorough --seed S --shard I/N --runs R --out FILE
//!        sessionsim replay FILE
//!        sessionsim log --focus F --seed S --index I        (print one run's event log)

use simcore::generate;
use simcore::ops::Op;
use simcore::run::{Config, Executor};
use std::collections::{BTreeMap, BTreeSet};
use std::path::PathBuf;
use zysim_common::{ChildOutcome, Value, json, mix, run_forked, shim};

const ENGINE: u64 = 2;
const CHILD_TIMEOUT_S: u64 = 90;

fn argument<'a>(args: &'a [String], name: &str) -> Option<&'a str> {
    args.iter().position(|a| a == name).and_then(|i| args.get(i + 1)).map(String::as_str)
}

/// A replay runs in the very directory the original run used (paths are part of the execution).
fn replay_dir(value: &Value) -> PathBuf {
    let dir = PathBuf::from(value["run_dir"].as_str().unwrap_or("/dev/shm/zysim/replay"));
    let _ = std::fs::remove_dir_all(&dir);
    std::fs::create_dir_all(&dir).expect("create scratch directory");
    dir
}

/// Execute one explicit history in a forked child; returns the child's JSON record.
fn run_child(run_dir: &PathBuf, key: u64, config: &Config, ops: &[Op], focus: &str) -> Result<Value, String> {
    let run_dir = run_dir.clone();
    let config = config.clone();
    let ops: Vec<Op> = ops.to_vec();
    let focus = focus.to_string();
    let outcome = run_forked(CHILD_TIMEOUT_S, move || {
        shim::reseed(key);
        if let Ok(path) = std::env::var("ZYSIM_PANIC_LOG") {
            // debugging aid: every panic with a backtrace
            std::panic::set_hook(Box::new(move |info| {
                use std::io::Write;
                if let Ok(mut file) = std::fs::OpenOptions::new().create(true).append(true).open(&path) {
                    let _ = writeln!(file, "PANIC: {info}\n{}\n", std::backtrace::Backtrace::force_capture());
                }
            }));
        } else {
            std::panic::set_hook(Box::new(|_| {}));
        }
        let result = zysim_common::with_big_stack(512 << 20, move || {
            let executor = Executor { run_dir: &run_dir, config: &config, focus: &focus, max_violations: 1 };
            let record = executor.execute(&ops);
            json!({
                "events": record.events,
                "violations": record.violations.iter().map(|v| v.to_json()).collect::<Vec<_>>(),
                "stats": record.stats.to_json(),
            })
        });
        let value = match result {
            | Ok(value) => value,
            | Err(message) => json!({"harness_panic": message}),
        };
        serde_json::to_vec(&value).unwrap()
    });
    match outcome {
        | ChildOutcome::Record(bytes) => serde_json::from_slice(&bytes).map_err(|e| format!("bad child record: {e}")),
        | ChildOutcome::Crashed { status, signal, stderr, .. } => Ok(json!({
            "crashed": {"status": status, "signal": signal, "stderr": String::from_utf8_lossy(&stderr[stderr.len().saturating_sub(1500)..]).to_string()},
        })),
        | ChildOutcome::TimedOut => Ok(json!({"timed_out": true})),
    }
}

/// The violation (if any) a child record carries: (property, class, json).
fn violation_of(record: &Value) -> Option<(String, String, Value)> {
    if let Some(crash) = record.get("crashed") {
        return Some((
            "C15".into(),
            "C15:crash".into(),
            json!({"property": "C15", "class": "C15:crash", "message": "the process running the session died (abort / stack overflow)", "detail": crash}),
        ));
    }
    if record.get("timed_out").is_some() {
        return Some((
            "C15".into(),
            "C15:hang".into(),
            json!({"property": "C15", "class": "C15:hang", "message": "the run did not finish within the wall-clock safety net"}),
        ));
    }
    let first = record["violations"].as_array()?.first()?;
    Some((first["property"].as_str()?.to_string(), first["class"].as_str()?.to_string(), first.clone()))
}

/// Delta debugging on the operation list while the same violation class persists.
fn minimise(
    run_dir: &PathBuf, key: u64, config: &Config, ops: &[Op], focus: &str, class: &str, budget: usize,
) -> Vec<Op> {
    let mut best: Vec<Op> = ops.to_vec();
    let mut spent = 0;
    let fails = |candidate: &[Op], spent: &mut usize| -> bool {
        *spent += 1;
        match run_child(run_dir, key, config, candidate, focus) {
            | Ok(record) => violation_of(&record).map(|v| v.1 == class).unwrap_or(false),
            | Err(_) => false,
        }
    };
    // cut the tail after the violating step first
    let mut chunk = (best.len() / 2).max(1);
    while chunk >= 1 && spent < budget {
        let mut index = 0;
        let mut reduced = false;
        while index < best.len() && spent < budget {
            let end = (index + chunk).min(best.len());
            let mut candidate = best.clone();
            candidate.drain(index..end);
            if !candidate.is_empty() && fails(&candidate, &mut spent) {
                best = candidate;
                reduced = true;
            } else {
                index += chunk;
            }
        }
        if !reduced {
            if chunk == 1 {
                break;
            }
            chunk /= 2;
        }
    }
    // simplify: snapshot queries -> plain queries, contents -> simplest literal
    for index in 0..best.len() {
        if spent >= budget {
            break;
        }
        let simpler = match &best[index] {
            | Op::AskSnapshot { root, query } => Some(Op::Ask { root: *root, query: query.clone() }),
            | Op::WriteRefresh { slot, content } if !content.imports.is_empty() || content.template.len() > 4 => {
                Some(Op::WriteRefresh {
                    slot: *slot,
                    content: simcore::content::Content::plain("int5", "5", simcore::content::Class::Closed),
                })
            }
            | Op::SetOverlay { slot, content } if !content.imports.is_empty() || content.template.len() > 4 => {
                Some(Op::SetOverlay {
                    slot: *slot,
                    content: simcore::content::Content::plain("int6", "6", simcore::content::Class::Closed),
                })
            }
            | Op::SilentWrite { slot, content } if !content.imports.is_empty() || content.template.len() > 4 => {
                Some(Op::SilentWrite {
                    slot: *slot,
                    content: simcore::content::Content::plain("int7", "7", simcore::content::Class::Closed),
                })
            }
            | _ => None,
        };
        if let Some(simpler) = simpler {
            let mut candidate = best.clone();
            candidate[index] = simpler;
            if fails(&candidate, &mut spent) {
                best = candidate;
            }
        }
    }
    best
}

fn history_json(config: &Config, ops: &[Op]) -> Value {
    json!({"config": config.to_json(), "ops": ops.iter().map(Op::to_json).collect::<Vec<_>>()})
}

fn main() {
    let args: Vec<String> = std::env::args().collect();
    match args.get(1).map(String::as_str) {
        | Some("run") => run(&args[2..]),
        | Some("replay") => replay(&args[2]),
        | Some("log") => log_one(&args[2..]),
        | _ => {
            eprintln!("usage: sessionsim run|replay|log ...");
            std::process::exit(2);
        }
    }
}

fn require_shim() {
    if !shim::present() {
        eprintln!("sessionsim: the zysim entropy seam is not loaded (LD_PRELOAD)");
        std::process::exit(2);
    }
}

fn run(args: &[String]) {
    require_shim();
    let focus = argument(args, "--focus").unwrap_or("C15").to_string();
    let tier = argument(args, "--tier").unwrap_or("quick").to_string();
    let seed: u64 = argument(args, "--seed").and_then(|s| s.parse().ok()).unwrap_or(zysim_common::DEFAULT_SEED);
    let (shard, shards) = argument(args, "--shard")
        .and_then(|s| s.split_once('/'))
        .map(|(a, b)| (a.parse::<u64>().unwrap(), b.parse::<u64>().unwrap()))
        .unwrap_or((0, 1));
    let runs: u64 = argument(args, "--runs").and_then(|s| s.parse().ok()).unwrap_or(100);
    let out = argument(args, "--out").expect("--out").to_string();
    let log_events = argument(args, "--events").is_some();
    // C09: the first `enumerate3 + enumerate4` run indices are the enumerated graph family
    let enumerate3: u64 = argument(args, "--enumerate3").and_then(|s| s.parse().ok()).unwrap_or(0);
    let enumerate4: u64 = argument(args, "--enumerate4").and_then(|s| s.parse().ok()).unwrap_or(0);
    let mut enumerated_runs = 0u64;
    let thorough = tier == "thorough";
    let focus_tag = if focus == "C09" { 9 } else { 15 };

    let mut totals_runs = 0u64;
    let mut ops_executed = 0u64;
    let mut ops_skipped = 0u64;
    let mut queries = 0u64;
    let mut fresh_sessions = 0u64;
    let mut graph_judgements = 0u64;
    let mut inline_judgements = 0u64;
    let mut generative_judgements = 0u64;
    let mut generative_rejections = 0u64;
    let mut by_kind: BTreeMap<String, u64> = BTreeMap::new();
    let mut faults_fired: BTreeMap<String, u64> = BTreeMap::new();
    let mut probes: BTreeMap<String, u64> = BTreeMap::new();
    let mut answer_kinds: BTreeMap<String, u64> = BTreeMap::new();
    let mut histories: BTreeSet<u64> = BTreeSet::new();
    let mut nontrivial_histories: BTreeSet<u64> = BTreeSet::new();
    let mut states: BTreeSet<u64> = BTreeSet::new();
    let mut samples: Vec<Value> = Vec::new();
    let mut violations: Vec<Value> = Vec::new();
    let mut inconclusive: Vec<Value> = Vec::new();
    let mut event_logs: Vec<Value> = Vec::new();

    let mut index = shard;
    while index < runs {
        let seed_i = mix(seed, ENGINE * 100 + focus_tag, index);
        let faults = index % 2 == 1;
        let generated = if index < enumerate3 {
            enumerated_runs += 1;
            // all 512 graphs when enumerate3 == 512, an even stride through them otherwise
            generate::enumerated(3, index * 512 / enumerate3.max(1), seed_i)
        } else if index < enumerate3 + enumerate4 {
            enumerated_runs += 1;
            generate::enumerated(4, (index - enumerate3) * 65536 / enumerate4.max(1), seed_i)
        } else {
            generate::history(seed_i, &focus, faults, thorough)
        };
        let key = mix(seed_i, 77, 0);
        let run_dir = zysim_common::run_directory(&format!("session{focus_tag}"), seed, index);
        let mut record = match run_child(&run_dir, key, &generated.config, &generated.ops, &focus) {
            | Ok(record) => record,
            | Err(message) => {
                eprintln!("sessionsim: {message}");
                std::process::exit(2);
            }
        };
        if record.get("harness_panic").is_some() {
            eprintln!("sessionsim: harness panic in run {index}: {}", record["harness_panic"]);
            std::process::exit(2);
        }
        if record.get("timed_out").is_some() {
            // re-execute once from the seed: a deterministic hang is a violation, a one-off is inconclusive
            let again = run_child(&run_dir, key, &generated.config, &generated.ops, &focus).unwrap_or(json!({}));
            if again.get("timed_out").is_none() {
                inconclusive.push(json!({"index": index, "reason": "timed out once, finished on re-execution"}));
                record = again;
            }
        }
        totals_runs += 1;
        let abstract_history = zysim_common::fnv1a(
            generated.ops.iter().map(|op| op.abstract_label()).collect::<Vec<_>>().join("|").as_bytes(),
        );
        histories.insert(abstract_history);
        if let Some(stats) = record.get("stats") {
            ops_executed += stats["ops_executed"].as_u64().unwrap_or(0);
            ops_skipped += stats["ops_skipped"].as_u64().unwrap_or(0);
            queries += stats["queries"].as_u64().unwrap_or(0);
            fresh_sessions += stats["fresh_sessions"].as_u64().unwrap_or(0);
            graph_judgements += stats["graph_judgements"].as_u64().unwrap_or(0);
            inline_judgements += stats["inline_judgements"].as_u64().unwrap_or(0);
            generative_judgements += stats["generative_judgements"].as_u64().unwrap_or(0);
            generative_rejections += stats["generative_rejections"].as_u64().unwrap_or(0);
            for (name, target) in [
                ("by_kind", &mut by_kind),
                ("faults_fired", &mut faults_fired),
                ("probes", &mut probes),
                ("answer_kinds", &mut answer_kinds),
            ] {
                if let Some(map) = stats[name].as_object() {
                    for (key, value) in map {
                        *target.entry(key.clone()).or_default() += value.as_u64().unwrap_or(0);
                    }
                }
            }
            if let Some(list) = stats["states"].as_array() {
                for state in list {
                    if let Some(hash) = state.as_str().and_then(|s| s.parse::<u64>().ok()) {
                        states.insert(hash);
                    }
                }
            }
            // non-trivial: at least one edit strictly between two queries
            let kinds: Vec<&str> = record["events"]
                .as_array()
                .map(|events| events.iter().filter(|e| e.get("skipped").is_none()).filter_map(|e| e["op"]["op"].as_str()).collect())
                .unwrap_or_default();
            let first_query = kinds.iter().position(|k| k.starts_with("ask"));
            let last_query = kinds.iter().rposition(|k| k.starts_with("ask"));
            if let (Some(first), Some(last)) = (first_query, last_query) {
                if kinds[first..last].iter().any(|k| !k.starts_with("ask") && *k != "evict") {
                    nontrivial_histories.insert(abstract_history);
                }
            }
        }
        if samples.len() < 2 && index % 7 == 3 {
            samples.push(json!({
                "index": index, "seed": seed_i.to_string(),
                "config": generated.config.to_json(),
                "history": generated.ops.iter().map(|op| op.abstract_label()).collect::<Vec<_>>(),
            }));
        }
        if log_events {
            event_logs.push(json!({"index": index, "events": record["events"], "violations": record["violations"]}));
        }
        if let Some((property, class, detail)) = violation_of(&record) {
            if violations.len() < 6 {
                let minimal = minimise(&run_dir, key, &generated.config, &generated.ops, &focus, &class, 120);
                let confirm = run_child(&run_dir, key, &generated.config, &minimal, &focus).unwrap_or(json!({}));
                let (final_ops, final_detail) = match violation_of(&confirm) {
                    | Some((_, confirmed_class, confirmed)) if confirmed_class == class => (minimal, confirmed),
                    | _ => (generated.ops.clone(), detail),
                };
                violations.push(json!({
                    "property": property, "engine": "sessionsim", "class": class, "focus": focus,
                    "seed": seed.to_string(), "run_index": index, "run_seed": seed_i.to_string(), "key": key.to_string(),
                    "run_dir": run_dir.to_string_lossy(),
                    "history": history_json(&generated.config, &final_ops),
                    "original_length": generated.ops.len(),
                    "violation": final_detail,
                    "trace": final_ops.iter().map(|op| op.abstract_label()).collect::<Vec<_>>(),
                }));
            } else {
                violations.push(json!({"property": property, "class": class, "run_index": index, "unminimised": true}));
            }
        }
        let _ = std::fs::remove_dir_all(&run_dir);
        index += shards;
    }
    let record = json!({
        "shard": shard, "shards": shards, "tier": tier, "seed": seed.to_string(), "focus": focus,
        "runs": totals_runs, "enumerated_graph_runs": enumerated_runs, "ops_executed": ops_executed, "ops_skipped_by_precondition": ops_skipped,
        "queries": queries, "fresh_sessions": fresh_sessions, "graph_judgements": graph_judgements,
        "inline_judgements": inline_judgements,
        "generative_judgements": generative_judgements,
        "generative_rejections": generative_rejections,
        "by_kind": by_kind, "faults_fired": faults_fired, "probes": probes, "answer_kinds": answer_kinds,
        "histories": histories.iter().map(|h| h.to_string()).collect::<Vec<_>>(),
        "nontrivial_histories": nontrivial_histories.iter().map(|h| h.to_string()).collect::<Vec<_>>(),
        "states": states.iter().map(|h| h.to_string()).collect::<Vec<_>>(),
        "samples": samples, "violations": violations, "inconclusive": inconclusive, "event_logs": event_logs,
    });
    std::fs::write(&out, serde_json::to_vec(&record).unwrap()).expect("write shard record");
}

fn replay(path: &str) {
    require_shim();
    let text = std::fs::read_to_string(path).expect("read replay file");
    let value: Value = serde_json::from_str(&text).expect("parse replay file");
    let config = Config::from_json(&value["history"]["config"]).expect("replay file: config");
    let ops: Vec<Op> = value["history"]["ops"]
        .as_array()
        .expect("replay file: ops")
        .iter()
        .map(|op| Op::from_json(op).expect("replay file: op"))
        .collect();
    let key: u64 = value["key"].as_str().and_then(|s| s.parse().ok()).unwrap_or(1);
    let focus = value["focus"].as_str().unwrap_or("both").to_string();
    let run_dir = replay_dir(&value);
    let record = run_child(&run_dir, key, &config, &ops, &focus).expect("child record");
    let _ = std::fs::remove_dir_all(&run_dir);
    for event in record["events"].as_array().into_iter().flatten() {
        println!("{event}");
    }
    match violation_of(&record) {
        | Some((property, class, detail)) => {
            println!("{}", serde_json::to_string_pretty(&detail).unwrap());
            println!("REPRODUCED property={property} class={class}");
            let expected = value["class"].as_str().unwrap_or(&class).to_string();
            std::process::exit(if expected == class { 1 } else { 3 });
        }
        | None => {
            println!("NOT-REPRODUCED");
            std::process::exit(0);
        }
    }
}

fn log_one(args: &[String]) {
    require_shim();
    let focus = argument(args, "--focus").unwrap_or("C15").to_string();
    let tier = argument(args, "--tier").unwrap_or("quick").to_string();
    let seed: u64 = argument(args, "--seed").and_then(|s| s.parse().ok()).unwrap_or(zysim_common::DEFAULT_SEED);
    let index: u64 = argument(args, "--index").and_then(|s| s.parse().ok()).unwrap_or(0);
    let focus_tag = if focus == "C09" { 9 } else { 15 };
    let seed_i = mix(seed, ENGINE * 100 + focus_tag, index);
    let generated = generate::history(seed_i, &focus, index % 2 == 1, tier == "thorough");
    let key = mix(seed_i, 77, 0);
    let run_dir = zysim_common::run_directory(&format!("session{focus_tag}"), seed, index);
    let record = run_child(&run_dir, key, &generated.config, &generated.ops, &focus).expect("child record");
    let _ = std::fs::remove_dir_all(&run_dir);
    println!("{}", serde_json::to_string(&json!({"config": generated.config.to_json(), "record": record})).unwrap());
}
