//! Execution of one explicit history against the real `CompilerSession`, with the
//! fresh-session oracle (C15) and the reference graph model (C09).

use crate::observe::{Observer, Strictness};
use crate::ops::{Op, Query, RefreshExpect, apply_to_model};
use crate::refgraph::Reference;
use crate::world::{Disk, Model, SLOTS, SLOT_E, Side};
use std::collections::BTreeMap;
use std::panic::{AssertUnwindSafe, catch_unwind};
use std::path::Path;
use zydeco_session::CompilerSession;
use zysim_common::{Value, json};

#[derive(Clone, Debug)]
pub struct Config {
    pub symlinks: bool,
    /// fault-injecting configuration (OS error texts of load errors are not compared)
    pub faults: bool,
    /// also evaluate the inlining equivalence (G5) at graph/analyze steps
    pub inline: bool,
}

impl Config {
    pub fn to_json(&self) -> Value {
        json!({"symlinks": self.symlinks, "faults": self.faults, "inline": self.inline})
    }
    pub fn from_json(value: &Value) -> Option<Self> {
        Some(Self {
            symlinks: value["symlinks"].as_bool()?,
            faults: value["faults"].as_bool()?,
            inline: value["inline"].as_bool().unwrap_or(false),
        })
    }
}

#[derive(Clone, Debug)]
pub struct Violation {
    pub property: &'static str,
    pub class: String,
    pub step: usize,
    pub message: String,
    pub expected: String,
    pub actual: String,
}

impl Violation {
    pub fn to_json(&self) -> Value {
        json!({
            "property": self.property, "class": self.class, "step": self.step, "message": self.message,
            "expected": self.expected, "actual": self.actual,
        })
    }
}

#[derive(Default, Debug)]
pub struct Stats {
    pub ops_executed: usize,
    pub ops_skipped: usize,
    pub queries: usize,
    pub fresh_sessions: usize,
    pub by_kind: BTreeMap<String, usize>,
    pub faults_fired: BTreeMap<String, usize>,
    pub probes: BTreeMap<String, usize>,
    pub answer_kinds: BTreeMap<String, usize>,
    pub states: Vec<u64>,
    pub graph_judgements: usize,
    pub inline_judgements: usize,
    /// inlining judgements whose text holds >= 2 copies of a generative provider
    pub generative_judgements: usize,
    /// ... of which the copies were mixed and the program was rejected
    pub generative_rejections: usize,
}

impl Stats {
    fn bump(map: &mut BTreeMap<String, usize>, key: &str) {
        *map.entry(key.to_string()).or_default() += 1;
    }
    pub fn to_json(&self) -> Value {
        json!({
            "ops_executed": self.ops_executed, "ops_skipped": self.ops_skipped, "queries": self.queries,
            "fresh_sessions": self.fresh_sessions, "by_kind": self.by_kind, "faults_fired": self.faults_fired,
            "probes": self.probes, "answer_kinds": self.answer_kinds,
            "states": self.states.iter().map(|s| s.to_string()).collect::<Vec<_>>(),
            "graph_judgements": self.graph_judgements, "inline_judgements": self.inline_judgements,
            "generative_judgements": self.generative_judgements, "generative_rejections": self.generative_rejections,
        })
    }
}

pub struct Record {
    pub events: Vec<Value>,
    pub violations: Vec<Violation>,
    pub stats: Stats,
}

fn first_difference(a: &str, b: &str) -> (String, String) {
    let left: Vec<&str> = a.lines().collect();
    let right: Vec<&str> = b.lines().collect();
    for index in 0..left.len().max(right.len()) {
        let (x, y) = (left.get(index).copied().unwrap_or("<end>"), right.get(index).copied().unwrap_or("<end>"));
        if x != y {
            let clip = |text: &str| text.chars().take(400).collect::<String>();
            return (format!("line {}: {}", index + 1, clip(x)), format!("line {}: {}", index + 1, clip(y)));
        }
    }
    ("<equal>".into(), "<equal>".into())
}

fn answer_kind(answer: &str) -> String {
    let head: String = answer.split_whitespace().take(1).collect();
    if answer.contains("\noutcome Checked") {
        "Ok-Checked".into()
    } else if answer.contains("\noutcome Rejected") {
        "Ok-Rejected".into()
    } else if let Some(rest) = answer.strip_prefix("Err ") {
        let variant: String = rest.chars().take_while(|c| c.is_alphanumeric()).collect();
        let inner: String = rest
            .split_once('(')
            .map(|(_, tail)| tail.chars().take_while(|c| c.is_alphanumeric()).collect())
            .unwrap_or_default();
        format!("Err-{variant}-{inner}")
    } else {
        head
    }
}

/// Outcome class used by the inlining equivalence: acceptance + behaviour only.
fn acceptance(analyze_answer: &str) -> String {
    if analyze_answer.starts_with("PANIC") {
        return "panic".into();
    }
    if let Some(index) = analyze_answer.find("\noutcome Checked(") {
        let sort: String =
            analyze_answer[index + 17..].chars().take_while(|c| c.is_alphabetic()).collect();
        return format!("checked-{sort}");
    }
    "rejected".into()
}

struct Fresh {
    version: u64,
    session: CompilerSession,
}

pub struct Executor<'a> {
    pub run_dir: &'a Path,
    pub config: &'a Config,
    /// which property's oracles are evaluated ("C15", "C09" or "both")
    pub focus: &'a str,
    /// stop at the first violation (normal) or collect up to this many
    pub max_violations: usize,
}

impl Executor<'_> {
    pub fn execute(&self, ops: &[Op]) -> Record {
        let s_side = Side::new(self.run_dir, "s");
        let f_side = Side::new(self.run_dir, "f");
        s_side.create(self.config.symlinks).expect("create S world");
        f_side.create(self.config.symlinks).expect("create F world");
        let strictness = if self.config.faults { Strictness::MaskOsError } else { Strictness::Exact };
        let observe_s = Observer { side: &s_side, strictness };
        let observe_f = Observer { side: &f_side, strictness };
        let mut model = Model::new(self.config.symlinks);
        model.pin();
        for slot in 0..SLOTS.len() {
            if model.pinned(slot) {
                s_side.put(slot, &model.slots[slot].disk);
            }
        }
        let mut session = CompilerSession::default();
        let mut held = crate::observe::Held::new();
        // reach probes
        let mut evicted_since_materialise = false;
        let mut last_answers: BTreeMap<(usize, String), u64> = BTreeMap::new();
        let mut companion_seen_absent: std::collections::BTreeSet<usize> = std::collections::BTreeSet::new();
        let mut held_version: BTreeMap<usize, u64> = BTreeMap::new();
        let mut fresh: Option<Fresh> = None;
        let mut record = Record { events: Vec::new(), violations: Vec::new(), stats: Stats::default() };
        let check_c15 = self.focus != "C09";
        let check_c09 = self.focus != "C15";

        for (step, op) in ops.iter().enumerate() {
            if record.violations.len() >= self.max_violations {
                break;
            }
            if !op.allowed(&model) {
                record.stats.ops_skipped += 1;
                record.events.push(json!({"step": step, "op": op.to_json(), "skipped": "precondition"}));
                continue;
            }
            record.stats.ops_executed += 1;
            Stats::bump(&mut record.stats.by_kind, op.kind());
            if op.is_fault() {
                Stats::bump(&mut record.stats.faults_fired, op.kind());
            }
            match op {
                | Op::Ask { root, query } | Op::AskSnapshot { root, query } => {
                    record.stats.queries += 1;
                    model.name(*root);
                    // every fifth step the root is named by a spelling that is not canonical
                    // (`<world>/d/../root.zy`): answers must not keep the spelling of a request
                    let respell = step % 5 == 2 && !SLOTS[*root].contains('/');
                    let spell = |side: &Side| {
                        if respell { side.path(SLOT_E).parent().unwrap().join("..").join(SLOTS[*root]) } else { side.path(*root) }
                    };
                    if respell {
                        Stats::bump(&mut record.stats.probes, "root_asked_by_a_non_canonical_spelling");
                    }
                    let s_root = spell(&s_side);
                    let through_snapshot = matches!(op, Op::AskSnapshot { .. });
                    let answer_s = if through_snapshot {
                        let snapshot = session.snapshot();
                        let answer = observe_s.ask(&snapshot, &s_root, query);
                        drop(snapshot);
                        answer
                    } else {
                        // keep the analysis handle of every third query for the `*Held` queries
                        observe_s.ask_holding(&session, &s_root, query, &mut held, step % 3 == 0)
                    };
                    model.after_query();
                    Stats::bump(&mut record.stats.answer_kinds, &format!("{}:{}", query.label(), answer_kind(&answer_s)));
                    // ---- reach probes
                    if evicted_since_materialise
                        && matches!(
                            query,
                            Query::Execute | Query::MaterializeArena | Query::CheckedProgram | Query::Facts | Query::ExecuteHeld
                                | Query::MaterializeArenaHeld | Query::CheckedProgramHeld
                        )
                    {
                        Stats::bump(&mut record.stats.probes, "memo_evicted_then_rematerialised");
                        evicted_since_materialise = false;
                    }
                    let answer_hash = zysim_common::fnv1a(answer_s.as_bytes());
                    if let Some(previous) = last_answers.insert((*root, query.label().to_string()), answer_hash) {
                        if previous != answer_hash {
                            Stats::bump(&mut record.stats.probes, "answer_changed_after_edits");
                        } else {
                            Stats::bump(&mut record.stats.probes, "answer_unchanged_since_last_asked");
                        }
                    }
                    if let Some(companion) = model.companion_of(*root) {
                        if matches!(model.effective(companion), crate::world::Effective::Absent) {
                            companion_seen_absent.insert(companion);
                        }
                    }
                    if matches!(query, Query::ExecuteHeld | Query::MaterializeArenaHeld | Query::CheckedProgramHeld) {
                        match held_version.get(root) {
                            | Some(version) if *version != model.version => {
                                Stats::bump(&mut record.stats.probes, "handle_query_with_stale_handle")
                            }
                            | Some(_) => Stats::bump(&mut record.stats.probes, "handle_query_with_current_handle"),
                            | None => {}
                        }
                    }
                    if step % 3 == 0 && !through_snapshot && answer_s.starts_with(|c: char| c != 'P') {
                        held_version.entry(*root).or_insert(model.version);
                        if matches!(query, Query::Analyze | Query::Graph | Query::Reports | Query::Coverage | Query::Facts) {
                            held_version.insert(*root, model.version);
                        }
                    }
                    // the fresh-session oracle on the mirror world
                    if fresh.as_ref().map(|f| f.version) != Some(model.version) {
                        drop(fresh.take());
                        f_side.mirror(&model);
                        let mut f_session = CompilerSession::default();
                        for slot in 0..SLOTS.len() {
                            if let Some(overlay) = &model.slots[slot].overlay {
                                f_session
                                    .set_overlay(f_side.path(slot), overlay.render(&f_side, slot))
                                    .expect("fresh session accepts an overlay");
                            }
                        }
                        record.stats.fresh_sessions += 1;
                        fresh = Some(Fresh { version: model.version, session: f_session });
                    }
                    let f_session = &fresh.as_ref().unwrap().session;
                    let f_root = spell(&f_side);
                    let answer_f = observe_f.ask(f_session, &f_root, query);
                    let mut event = json!({
                        "step": step, "op": op.to_json(), "answer": answer_kind(&answer_s),
                        "answer_hash": zysim_common::fnv1a(answer_s.as_bytes()).to_string(),
                    });
                    if answer_s.starts_with("PANIC") && answer_s == answer_f {
                        Stats::bump(&mut record.stats.probes, "both_sessions_panic_identically(C10,not judged)");
                    }
                    if check_c15 && answer_s != answer_f {
                        let (actual, expected) = first_difference(&answer_s, &answer_f);
                        event["violation"] = json!("C15");
                        record.violations.push(Violation {
                            property: "C15",
                            class: format!("C15:diverge:{}", query.label()),
                            step,
                            message: format!(
                                "{} of {} on the long-lived session{} differs from a fresh session over the same effective contents",
                                query.label(),
                                SLOTS[*root],
                                if through_snapshot { " (through a snapshot)" } else { "" }
                            ),
                            expected,
                            actual,
                        });
                    }
                    // cross-invariant: repeating a query gives an equal answer
                    if check_c15 && !through_snapshot && record.violations.is_empty() {
                        let again = observe_s.ask(&session, &s_root, query);
                        if again != answer_s {
                            let (actual, expected) = first_difference(&again, &answer_s);
                            record.violations.push(Violation {
                                property: "C15",
                                class: format!("C15:repeat:{}", query.label()),
                                step,
                                message: format!("repeating {} of {} gives a different answer", query.label(), SLOTS[*root]),
                                expected,
                                actual,
                            });
                        }
                    }
                    // reference graph model
                    if check_c09 && matches!(query, Query::Graph | Query::Analyze) {
                        let reference = Reference::new(&model, *root);
                        // a load that panics is neither a graph nor a cycle report
                        let graph_answer = match catch_unwind(AssertUnwindSafe(|| session.graph(&s_root))) {
                            | Ok(answer) => answer,
                            | Err(payload) => {
                                let message = zysim_common::panic_message(&*payload);
                                event["violation"] = json!("C09");
                                record.violations.push(Violation {
                                    property: "C09",
                                    class: "C09:panic".into(),
                                    step,
                                    message: format!("loading the graph of {} panicked", SLOTS[*root]),
                                    expected: format!("{reference:?}"),
                                    actual: format!("PANIC {message}"),
                                });
                                record.events.push(event);
                                break;
                            }
                        };
                        record.stats.graph_judgements += 1;
                        Stats::bump(
                            &mut record.stats.probes,
                            if !reference.problems.is_empty() {
                                "graph:unloadable"
                            } else if reference.cyclic {
                                "graph:cyclic"
                            } else if reference.reachable.len() > 1 {
                                "graph:multi-file"
                            } else {
                                "graph:single-file"
                            },
                        );
                        if reference.signatures.len() > 0 {
                            Stats::bump(&mut record.stats.probes, "graph:has-companion");
                        }
                        if let Err(message) = reference.judge(&s_side, &graph_answer) {
                            let tag: String = message.chars().take_while(|c| *c != ':').collect();
                            event["violation"] = json!("C09");
                            record.violations.push(Violation {
                                property: "C09",
                                class: format!("C09:{}", if tag.len() <= 3 { tag } else { "load".into() }),
                                step,
                                message,
                                expected: format!("{reference:?}"),
                                actual: match &graph_answer {
                                    | Ok(graph) => observe_s.graph(graph),
                                    | Err(error) => observe_s.load_error(error),
                                },
                            });
                        }
                        if self.config.inline && matches!(query, Query::Analyze) {
                            if let Some(inlined) = reference.inlined(&model, &s_side, *root) {
                                record.stats.inline_judgements += 1;
                                let inline_side = Side::new(self.run_dir, "i");
                                inline_side.create(false).expect("create inline world");
                                let inline_root = inline_side.root.join("inlined.zy");
                                let mut inline_session = CompilerSession::default();
                                let inlined = inlined.replace(&s_side.prefix(), &inline_side.prefix());
                                inline_session.set_overlay(&inline_root, inlined.clone()).expect("overlay");
                                let observe_i = Observer { side: &inline_side, strictness };
                                let multi = (
                                    acceptance(&observe_s.ask(&session, &s_root, &Query::Analyze)),
                                    observe_s.ask(&session, &s_root, &Query::Execute),
                                );
                                let single = (
                                    acceptance(&observe_i.ask(&inline_session, &inline_root, &Query::Analyze)),
                                    observe_i.ask(&inline_session, &inline_root, &Query::Execute),
                                );
                                let behaviour = |answer: &str| {
                                    if answer.starts_with("Ran") { answer.to_string() } else { "not-run".to_string() }
                                };
                                // G6: import occurrences are fresh copies, a bound import is shared.  Judged
                                // without the inliner: the root is a generative consumer whose occurrences all
                                // name a generative provider directly (no companion in between).
                                if let crate::world::Effective::Text(consumer) = model.effective(*root) {
                                    let direct = consumer.name.starts_with("gen-consumer")
                                        && !reference.signatures.contains_key(root)
                                        && consumer.imports.iter().all(|import| {
                                            import.slot < SLOTS.len()
                                                && !reference.signatures.contains_key(&import.slot)
                                                && matches!(
                                                    model.effective(import.slot),
                                                    crate::world::Effective::Text(provider) if provider.name.starts_with("gen-provider")
                                                )
                                        });
                                    if direct {
                                        record.stats.generative_judgements += 1;
                                        let mixes = matches!(consumer.name.as_str(), "gen-consumer-mixed" | "gen-consumer-crossed");
                                        if mixes {
                                            record.stats.generative_rejections += 1;
                                        }
                                        let as_expected =
                                            if mixes { multi.0 == "rejected" } else { multi.0.starts_with("checked-") };
                                        if !as_expected {
                                            record.violations.push(Violation {
                                                property: "C09",
                                                class: "C09:G6".into(),
                                                step,
                                                message: format!(
                                                    "G6: {} at {} over a provider with a generative definition",
                                                    consumer.name, SLOTS[*root]
                                                ),
                                                expected: if mixes {
                                                    "rejected: two import occurrences are distinct copies".into()
                                                } else {
                                                    "accepted: one bound import is shared / separate copies are each consistent".into()
                                                },
                                                actual: multi.0.clone(),
                                            });
                                        }
                                    }
                                }
                                if multi.0 != single.0 || behaviour(&multi.1) != behaviour(&single.1) {
                                    record.violations.push(Violation {
                                        property: "C09",
                                        class: "C09:G5".into(),
                                        step,
                                        message: format!(
                                            "G5: the multi-file program rooted at {} and its inlined single-file text disagree",
                                            SLOTS[*root]
                                        ),
                                        expected: format!("inlined `{inlined}` => {} / {}", single.0, behaviour(&single.1)),
                                        actual: format!("{} / {}", multi.0, behaviour(&multi.1)),
                                    });
                                }
                            }
                        }
                    }
                    record.events.push(event);
                }
                | Op::Evict => {
                    evicted_since_materialise = true;
                    salsa::Database::trigger_lru_eviction(&mut session);
                    record.events.push(json!({"step": step, "op": op.to_json()}));
                }
                | mutating => {
                    let slot = mutating.slot().unwrap();
                    let path = s_side.path(slot);
                    // 1. the disk
                    match mutating {
                        | Op::WriteRefresh { content, .. } | Op::SilentWrite { content, .. } => {
                            s_side.put(slot, &Disk::File(content.clone()))
                        }
                        | Op::StampedWriteRefresh { content, .. } => {
                            // same length, same modification time: only the bytes change
                            let stamp = std::fs::metadata(&path).and_then(|m| m.modified()).ok();
                            s_side.put(slot, &Disk::File(content.clone()));
                            if let (Some(stamp), Ok(file)) = (stamp, std::fs::OpenOptions::new().write(true).open(&path)) {
                                let _ = file.set_modified(stamp);
                            }
                        }
                        | Op::DeleteRefresh { .. } | Op::SilentDelete { .. } => s_side.put(slot, &Disk::Absent),
                        | Op::FaultDirectory { .. } => s_side.put(slot, &Disk::Directory),
                        | Op::FaultGarbage { .. } => s_side.put(slot, &Disk::Garbage),
                        | _ => {}
                    }
                    // 2. the session
                    let call = catch_unwind(AssertUnwindSafe(|| -> Option<Result<(), String>> {
                        match mutating {
                            | Op::SetOverlay { content, .. } => Some(
                                session.set_overlay(&path, content.render(&s_side, slot)).map_err(|e| e.to_string()),
                            ),
                            | Op::ClearOverlay { .. } => Some(session.clear_overlay(&path).map_err(|e| e.to_string())),
                            | Op::WriteRefresh { .. }
                            | Op::StampedWriteRefresh { .. }
                            | Op::DeleteRefresh { .. }
                            | Op::FaultDirectory { .. }
                            | Op::FaultGarbage { .. }
                            | Op::Refresh { .. } => Some(session.refresh_disk(&path).map_err(|e| e.to_string())),
                            | _ => None,
                        }
                    }));
                    // 3. the model
                    if companion_seen_absent.contains(&slot)
                        && matches!(mutating, Op::SetOverlay { .. } | Op::WriteRefresh { .. })
                    {
                        Stats::bump(&mut record.stats.probes, "companion_appeared_after_being_probed_absent");
                        companion_seen_absent.remove(&slot);
                    }
                    if matches!(mutating, Op::ClearOverlay { .. }) && model.slots[slot].overlay.is_some() {
                        Stats::bump(&mut record.stats.probes, "overlay_reverted_to_disk");
                    }
                    let status_before = model.slots[slot].status.clone();
                    let expect = apply_to_model(&mut model, mutating);
                    if !matches!(mutating, Op::SilentWrite { .. } | Op::SilentDelete { .. }) {
                        model.name(slot);
                    }
                    match call {
                        | Err(payload) => {
                            record.violations.push(Violation {
                                property: "C15",
                                class: format!("C15:panic:{}", mutating.kind()),
                                step,
                                message: format!("{} on {} panicked", mutating.kind(), SLOTS[slot]),
                                expected: "no panic".into(),
                                actual: zysim_common::panic_message(&*payload),
                            });
                        }
                        | Ok(result) => {
                            let mut event = json!({"step": step, "op": mutating.to_json()});
                            if let Some(result) = result {
                                event["result"] = match &result {
                                    | Ok(()) => json!("ok"),
                                    | Err(error) => json!(format!("err: {}", error.replace(&s_side.prefix(), "<W>"))),
                                };
                                match (expect, &result) {
                                    | (Some(RefreshExpect::Ok), Err(_)) => {
                                        Stats::bump(&mut record.stats.probes, "refresh_failed_on_loadable_path");
                                        event["note"] = json!("refresh_disk failed although the path is readable or absent");
                                    }
                                    | (Some(RefreshExpect::ReadError), Ok(())) => {
                                        Stats::bump(&mut record.stats.probes, "refresh_ok_on_unreadable_path");
                                    }
                                    | (Some(RefreshExpect::ReadError), Err(_)) => {
                                        Stats::bump(&mut record.stats.probes, "refresh_reported_read_error");
                                    }
                                    | _ => {}
                                }
                            }
                            if matches!(status_before, crate::world::Status::Never)
                                && matches!(mutating, Op::SilentWrite { .. })
                            {
                                Stats::bump(&mut record.stats.probes, "file_appeared_before_first_lookup");
                            }
                            record.events.push(event);
                        }
                    }
                }
            }
            record.stats.states.push(model.abstract_hash());
        }
        drop(fresh);
        record
    }
}
