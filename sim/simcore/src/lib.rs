//! Shared core of the session simulators (E2 `sessionsim`, E3 `concsim`).
pub mod content;
pub mod generate;
pub mod observe;
pub mod ops;
pub mod refgraph;
pub mod run;
pub mod world;
