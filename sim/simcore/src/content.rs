//! Content variants: small Zydeco source texts with explicit import structure, so the
//! simulator knows the ground truth of every file's imports because it wrote them.

use crate::world::{MISSING, MISSING_LOOP, MISSING_TOO_LONG, SLOT_A, SLOT_E, SLOT_H, SLOT_INPUT, SLOTS, Side, directory_of, in_subdirectory};
use zysim_common::{Rng, Value, json};

pub const BUILTIN: &str = "/repo/lib/std/builtin.zy";

#[derive(Clone, Debug, PartialEq, Eq)]
pub enum Spelling {
    Plain,
    Dot,
    DotDot,
    Absolute,
    /// absolute but not canonical: `<prefix>/d/../<target>`
    AbsoluteDotDot,
    ViaSymlink,
    /// absolute through a symlink: `<prefix>/l.zy`, `<prefix>/dl/e.zy`
    AbsoluteViaSymlink,
    Numbered,
}

impl Spelling {
    fn label(&self) -> &'static str {
        match self {
            | Spelling::Plain => "plain",
            | Spelling::Dot => "dot",
            | Spelling::DotDot => "dotdot",
            | Spelling::Absolute => "absolute",
            | Spelling::AbsoluteDotDot => "absolute-dotdot",
            | Spelling::ViaSymlink => "symlink",
            | Spelling::AbsoluteViaSymlink => "absolute-symlink",
            | Spelling::Numbered => "numbered",
        }
    }
    fn parse(text: &str) -> Option<Self> {
        Some(match text {
            | "plain" => Spelling::Plain,
            | "dot" => Spelling::Dot,
            | "dotdot" => Spelling::DotDot,
            | "absolute" => Spelling::Absolute,
            | "absolute-dotdot" => Spelling::AbsoluteDotDot,
            | "symlink" => Spelling::ViaSymlink,
            | "absolute-symlink" => Spelling::AbsoluteViaSymlink,
            | "numbered" => Spelling::Numbered,
            | _ => return None,
        })
    }
}

#[derive(Clone, Debug, PartialEq, Eq)]
pub struct ImportRef {
    pub slot: usize,
    pub spelling: Spelling,
}

/// What kind of thing the text is, as far as the generator's expectations go.
#[derive(Clone, Debug, PartialEq, Eq)]
pub enum Class {
    /// A closed term with no problem of its own.
    Closed,
    /// A type term usable as a companion signature.
    Signature,
    /// Fails to parse (the file then has no imports as far as the loader can see).
    SyntaxError,
    /// Parses, but an import directive is malformed (template error).
    DirectiveError,
    /// Parses and loads; rejected later (type error, unbound name, ...).
    Rejected,
    /// An executable `OS` program over the builtin package.
    Executable,
}

#[derive(Clone, Debug, PartialEq, Eq)]
pub struct Content {
    /// Variant name (for logs and the abstract-history hash).
    pub name: String,
    /// Text with `{0}`, `{1}`, ... standing for the import directives' arguments.
    pub template: String,
    pub imports: Vec<ImportRef>,
    pub class: Class,
}

impl Content {
    pub fn plain(name: &str, text: &str, class: Class) -> Self {
        Self { name: name.to_string(), template: text.to_string(), imports: vec![], class }
    }

    /// The concrete text of this content when it sits in `holder` on `side`.
    pub fn render(&self, side: &Side, holder: usize) -> String {
        let mut text = self.template.clone();
        for (index, import) in self.imports.iter().enumerate() {
            text = text.replace(&format!("{{{index}}}"), &spell(side, holder, import));
        }
        text
    }

    /// Does the loader see import edges in this text?
    pub fn loads(&self) -> bool {
        !matches!(self.class, Class::SyntaxError | Class::DirectiveError)
    }

    pub fn to_json(&self) -> Value {
        json!({
            "name": self.name,
            "template": self.template,
            "imports": self.imports.iter().map(|i| json!([i.slot, i.spelling.label()])).collect::<Vec<_>>(),
            "class": match self.class {
                | Class::Closed => "closed",
                | Class::Signature => "signature",
                | Class::SyntaxError => "syntax-error",
                | Class::DirectiveError => "directive-error",
                | Class::Rejected => "rejected",
                | Class::Executable => "executable",
            },
        })
    }

    pub fn from_json(value: &Value) -> Option<Self> {
        Some(Self {
            name: value["name"].as_str()?.to_string(),
            template: value["template"].as_str()?.to_string(),
            imports: value["imports"]
                .as_array()?
                .iter()
                .map(|entry| {
                    Some(ImportRef {
                        slot: entry[0].as_u64()? as usize,
                        spelling: Spelling::parse(entry[1].as_str()?)?,
                    })
                })
                .collect::<Option<Vec<_>>>()?,
            class: match value["class"].as_str()? {
                | "closed" => Class::Closed,
                | "signature" => Class::Signature,
                | "syntax-error" => Class::SyntaxError,
                | "directive-error" => Class::DirectiveError,
                | "rejected" => Class::Rejected,
                | "executable" => Class::Executable,
                | _ => return None,
            },
        })
    }
}

/// The argument of the import directive, e.g. `"./a.zy"` or `1`.
fn spell(side: &Side, holder: usize, import: &ImportRef) -> String {
    if import.spelling == Spelling::Numbered {
        return "1".to_string();
    }
    let too_long = format!("{}.zy", "n".repeat(300));
    let target: &str = match import.slot {
        | MISSING => "missing.zy",
        | MISSING_TOO_LONG => &too_long,
        | MISSING_LOOP => "loop.zy",
        | slot => SLOTS[slot],
    };
    let holder_dir = directory_of(holder);
    let from_sub = in_subdirectory(holder);
    // the target relative to the holder's directory
    let relative = if !from_sub {
        target.to_string()
    } else {
        match target.strip_prefix(&format!("{holder_dir}/")) {
            | Some(inside) => inside.to_string(),
            | None => format!("../{target}"),
        }
    };
    // `g/` may not exist while `g/h.zy` is overlay-only: any `..` through it would not
    // resolve, so a holder in `g/` spells every import absolutely
    let spelling = if holder == SLOT_H { Spelling::Absolute } else { import.spelling.clone() };
    let path = match spelling {
        | Spelling::Plain | Spelling::Numbered => relative,
        | Spelling::Dot => format!("./{relative}"),
        | Spelling::DotDot => {
            if from_sub {
                format!("../{holder_dir}/{relative}")
            } else {
                format!("d/../{relative}")
            }
        }
        | Spelling::Absolute => format!("{}/{}", side.prefix(), target),
        | Spelling::AbsoluteDotDot => format!("{}/d/../{}", side.prefix(), target),
        | Spelling::AbsoluteViaSymlink => match import.slot {
            | SLOT_A => format!("{}/l.zy", side.prefix()),
            | SLOT_E => format!("{}/dl/e.zy", side.prefix()),
            | _ => format!("{}/{}", side.prefix(), target),
        },
        | Spelling::ViaSymlink => {
            let through = match import.slot {
                // two links lead to a.zy: `l.zy` and the all-digit name `7` (a quoted path made of
                // digits is still a path, not a REPL input number)
                | SLOT_A if holder % 2 == 1 => Some("7".to_string()),
                | SLOT_A => Some("l.zy".to_string()),
                | SLOT_E => Some("dl/e.zy".to_string()),
                | _ => None,
            };
            match through {
                | Some(link) if from_sub => format!("../{link}"),
                | Some(link) => link,
                | None => relative,
            }
        }
    };
    format!("\"{path}\"")
}

/// Which slots a content in `holder` may import, and how.
pub struct Palette<'a> {
    pub slots: &'a [usize],
    pub symlinks: bool,
    pub allow_exec: bool,
    pub allow_missing: bool,
}

fn pick_spelling(rng: &mut Rng, holder: usize, target: usize, palette: &Palette) -> Spelling {
    if target == SLOT_INPUT {
        // `.zydeco-input-1` is reached by number from the world directory, by path otherwise
        return if !in_subdirectory(holder) && rng.chance(2, 3) { Spelling::Numbered } else { Spelling::Plain };
    }
    let mut options = vec![
        Spelling::Plain, Spelling::Plain, Spelling::Dot, Spelling::DotDot, Spelling::Absolute, Spelling::AbsoluteDotDot,
    ];
    if palette.symlinks && (target == SLOT_A || target == SLOT_E) {
        options.push(Spelling::ViaSymlink);
        options.push(Spelling::ViaSymlink);
        options.push(Spelling::AbsoluteViaSymlink);
    }
    rng.pick(&options).clone()
}

fn import_of(rng: &mut Rng, holder: usize, palette: &Palette) -> ImportRef {
    if palette.allow_missing && rng.chance(1, 12) {
        let slot = *rng.pick(&[MISSING, MISSING, MISSING_TOO_LONG, MISSING_LOOP]);
        return ImportRef { slot, spelling: Spelling::Plain };
    }
    let slot = *rng.pick(palette.slots);
    ImportRef { slot, spelling: pick_spelling(rng, holder, slot, palette) }
}

/// Draw one content variant for `holder`.
pub fn generate(rng: &mut Rng, holder: usize, palette: &Palette) -> Content {
    let is_signature_slot = SLOTS[holder].ends_with(".zyi");
    let literal = rng.range(2, 97);
    let mut weights = vec![
        10, // 0 integer literal
        3,  // 1 unit / string / tuple literals
        4,  // 2 ret v
        3,  // 3 annotated literal
        if is_signature_slot { 30 } else { 3 }, // 4 signature type
        12, // 5 one import
        6,  // 6 two imports (diamond)
        4,  // 7 let-bound import used twice
        4,  // 8 annotated import
        3,  // 9 syntax error
        3,  // 10 type error
        2,  // 11 unbound name
        2,  // 12 empty / whitespace
        2,  // 13 malformed directive
        3,  // 14 debug observation
        3,  // 15 hole (inference site)
        2,  // 16 nested tuple with import
        2,  // 17 coverage: match with a missing arm (pure)
        4,  // 18 several independent diagnostics / observations in one file (order matters)
        4,  // 19 three imports
        4,  // 20 a literal splice (text block + @[literal])
        6,  // 21 a tuple of 2-4 independent diagnostic sites drawn from every phase (order of reporting)
    ];
    if palette.allow_exec && !is_signature_slot {
        weights.push(8); // 22 executable with literal code
        weights.push(8); // 23 executable with imported code
        weights.push(3); // 24 executable with a missing match arm
        weights.push(5); // 25 executable whose function parameter is annotated by an import
        weights.push(6); // 26 executable block with 2-4 independent faulty definitions
    }
    // generative definitions (C09: every import occurrence is a fresh copy, a bound import is shared);
    // appended after the optional executable variants so the arms below keep their numbers
    let generative_base = weights.len();
    weights.push(if is_signature_slot { 0 } else { 5 }); // a provider exporting values of its own `def` type
    weights.push(if is_signature_slot { 0 } else { 7 }); // a consumer mixing / not mixing two occurrences
    let choice = rng.weighted(&weights);
    if choice == generative_base {
        return generative_provider(literal);
    }
    if choice == generative_base + 1 {
        return generative_consumer(rng, holder, palette);
    }
    match choice {
        | 0 => Content::plain(&format!("int{literal}"), &literal.to_string(), Class::Closed),
        | 1 => match rng.below(3) {
            | 0 => Content::plain("unit", "()", Class::Closed),
            | 1 => Content::plain(&format!("str{literal}"), &format!("\"s{literal}\""), Class::Closed),
            | _ => Content::plain(&format!("pair{literal}"), &format!("({literal}, \"p\")"), Class::Closed),
        },
        | 2 => Content::plain(&format!("ret{literal}"), &format!("ret {literal}"), Class::Closed),
        | 3 => Content::plain(
            &format!("ann{literal}"),
            &format!("({literal} : @[intrinsic(i64)] _)"),
            Class::Closed,
        ),
        | 4 => {
            let which = *rng.pick(&["i64", "string", "i64", "char"]);
            Content::plain(&format!("sig-{which}"), &format!("@[intrinsic({which})] _"), Class::Signature)
        }
        | 5 => Content {
            name: "import1".into(),
            template: "@[import({0})] _".into(),
            imports: vec![import_of(rng, holder, palette)],
            class: Class::Closed,
        },
        | 6 => Content {
            name: "import2".into(),
            template: "(@[import({0})] _, @[import({1})] _)".into(),
            imports: vec![import_of(rng, holder, palette), import_of(rng, holder, palette)],
            class: Class::Closed,
        },
        | 7 => Content {
            name: "let-import".into(),
            template: "let x = @[import({0})] _ in (x, x)".into(),
            imports: vec![import_of(rng, holder, palette)],
            class: Class::Closed,
        },
        | 8 => Content {
            name: "ann-import".into(),
            template: "let x : @[intrinsic(i64)] _ = @[import({0})] _ in x".into(),
            imports: vec![import_of(rng, holder, palette)],
            class: Class::Closed,
        },
        | 9 => match rng.below(3) {
            | 0 => Content::plain("syntax-let", "let x = in", Class::SyntaxError),
            | 1 => Content::plain("syntax-paren", &format!("({literal}, "), Class::SyntaxError),
            | _ => Content {
                name: "syntax-after-import".into(),
                template: "(@[import({0})] _ , , )".into(),
                imports: vec![import_of(rng, holder, palette)],
                class: Class::SyntaxError,
            },
        },
        | 10 => Content::plain(
            &format!("tyerr{literal}"),
            &format!("(\"t{literal}\" : @[intrinsic(i64)] _)"),
            Class::Rejected,
        ),
        | 11 => Content::plain(&format!("unbound{literal}"), &format!("nope{literal}"), Class::Rejected),
        | 12 => Content::plain(
            if literal % 2 == 0 { "empty" } else { "blank" },
            if literal % 2 == 0 { "" } else { "  \n-- only a comment\n" },
            Class::SyntaxError,
        ),
        | 13 => match rng.below(3) {
            | 0 => Content::plain("bad-directive", "@[import(\"a\", \"b\")] _", Class::DirectiveError),
            // several malformed directives in one file: which one is reported must not depend on
            // anything but the text
            | 1 => Content::plain(
                "bad-directives3",
                "(@[import(\"a\", \"b\")] _, (@[import(0)] _, @[import()] _))",
                Class::DirectiveError,
            ),
            | _ => Content::plain(
                "bad-directives4",
                "((@[import()] _, @[import(0)] _), (@[import(\"x\", \"y\", \"z\")] _, @[intrinsic(nope)] _))",
                Class::DirectiveError,
            ),
        },
        | 14 => Content::plain(&format!("debug{literal}"), &format!("@[debug] ({literal}, ())"), Class::Closed),
        | 15 => Content::plain("hole", "_", Class::Rejected),
        | 16 => Content {
            name: "nested-import".into(),
            template: format!("(({literal}, @[import({{0}})] _), ())"),
            imports: vec![import_of(rng, holder, palette)],
            class: Class::Closed,
        },
        | 17 => Content::plain(
            "pure-match",
            "let x = (1, 2) in let (a, b) = x in (b, a)",
            Class::Closed,
        ),
        | 18 => match rng.below(8) {
            | 0 => Content::plain("two-holes", "(_, (_, 3))", Class::Rejected),
            | 1 => Content::plain(
                "two-tyerrs",
                "((\"a\" : @[intrinsic(i64)] _), ((\"b\" : @[intrinsic(i64)] _), (7 : @[intrinsic(string)] _)))",
                Class::Rejected,
            ),
            | 2 => Content::plain("two-debugs", "(@[debug] 1, (@[debug] \"d\", @[debug] ()))", Class::Closed),
            | 3 => Content::plain("hole-and-tyerr", "(_, (\"c\" : @[intrinsic(i64)] _))", Class::Rejected),
            | 5 => Content::plain(
                "unconstrained-lambdas",
                "({ fn p q r => ret () }, ({ fn s t => ret () }, 4))",
                Class::Rejected,
            ),
            | 6 => Content::plain(
                "let-holes",
                "let x = _ in let y = _ in let z : _ = 5 in (x, (y, z))",
                Class::Rejected,
            ),
            | _ => Content::plain("typed-holes", "((_ : @[intrinsic(i64)] _), (_ : @[intrinsic(string)] _))", Class::Rejected),
        },

        | 19 => Content {
            name: "import3".into(),
            template: "(@[import({0})] _, (@[import({1})] _, @[import({2})] _))".into(),
            imports: vec![import_of(rng, holder, palette), import_of(rng, holder, palette), import_of(rng, holder, palette)],
            class: Class::Closed,
        },
        | 20 => Content::plain(
            &format!("literal-splice{literal}"),
            &format!("--| Line one {literal}\n--| Line two\n@[literal] _"),
            Class::Closed,
        ),
        | 21 => mixed_sites(rng),
        | 22 => executable(&format!("exec{literal}"), &literal.to_string(), vec![], false),
        | 23 => executable("exec-import", "@[import({0})] _", vec![import_of(rng, holder, palette)], false),
        | 24 => executable(&format!("exec-missing-arm{literal}"), &literal.to_string(), vec![], true),
        | 26 => faulty_block(rng),
        | _ => Content {
            name: "exec-ann-import".into(),
            template: format!(
                "begin\n  param ((/core; /representations; /system) : @(import(\"{BUILTIN}\"))) that\n  let (/VType; /Thk; /Ret; /Unit) = core that\n  let (/Scalar = Int64) = representations/i64 that\n  let (/stdio; /process) = system that\n  def ! pick (x : @[import({{0}})] _) : Ret Int64 = ret {literal} that\n  do code <- ! pick 3;\n  ! (stdio/write_line) \"exec-ann-import\" {{ ! (process/exit) code }}\nend\n"
            ),
            imports: vec![import_of(rng, holder, palette)],
            class: Class::Executable,
        },
    }
}

/// A closed provider whose exported pair mentions its own generative `def` type: a constructor
/// value and the only function that accepts it.
pub fn generative_provider(literal: usize) -> Content {
    Content::plain(
        &format!("gen-provider{literal}"),
        &format!(
            "begin\n  let Int = @[intrinsic(i64)] _ that\n  let Ret = @[intrinsic(ret)] _ that\n  def T =\n    data\n    | +Mk : Int\n    end\n  that\n  def mk : T = +Mk({literal}) that\n  def ! un (x : T) : Ret Int =\n    match x\n    | +Mk(n) => ret n\n    end\n  that\n  (mk, un)\nend\n"
        ),
        Class::Closed,
    )
}

/// Consumers of [`generative_provider`]: two occurrences mixed (must be rejected when both
/// name the provider, under any two spellings), one bound occurrence used twice (accepted),
/// two occurrences kept apart (accepted), a mixed pair hidden one level down.
fn generative_consumer(rng: &mut Rng, holder: usize, palette: &Palette) -> Content {
    let first = import_of(rng, holder, palette);
    let respelled = if first.slot < SLOTS.len() {
        ImportRef { slot: first.slot, spelling: pick_spelling(rng, holder, first.slot, palette) }
    } else {
        first.clone()
    };
    match rng.below(5) {
        | 0 | 1 => Content {
            name: "gen-consumer-mixed".into(),
            template: "let (mk1, _) = @[import({0})] _ in\nlet (_, un2) = @[import({1})] _ in\n! un2 mk1\n".into(),
            imports: vec![first, respelled],
            class: Class::Closed,
        },
        | 2 => Content {
            name: "gen-consumer-shared".into(),
            template: "let p = @[import({0})] _ in\nlet (mk1, _) = p in\nlet (_, un2) = p in\n! un2 mk1\n".into(),
            imports: vec![first],
            class: Class::Closed,
        },
        | 3 => Content {
            name: "gen-consumer-apart".into(),
            template: "let (mk1, un1) = @[import({0})] _ in\nlet (mk2, un2) = @[import({1})] _ in\ndo a <- ! un1 mk1;\ndo b <- ! un2 mk2;\nret (a, b)\n".into(),
            imports: vec![first, respelled],
            class: Class::Closed,
        },
        | _ => Content {
            name: "gen-consumer-crossed".into(),
            template: "let (mk1, un1) = @[import({0})] _ in\nlet (mk2, un2) = @[import({1})] _ in\ndo a <- ! un1 mk2;\ndo b <- ! un2 mk1;\nret (a, b)\n".into(),
            imports: vec![first, respelled],
            class: Class::Closed,
        },
    }
}

/// One independent site that produces a diagnostic or an observation, numbered so that two
/// sites of one family differ in their text.
fn site(family: usize, n: usize) -> String {
    match family {
        // name resolution
        | 0 => format!("nope{n}"),
        | 1 => format!("{{ ret nope{n} }}"),
        | 2 => format!("(let x{n} = {n} that x{n})"),
        // directives
        | 3 => format!("@[intrinsic(i64)] {n}"),
        | 4 => format!("({n} : @[intrinsic(nope{n})] _)"),
        | 5 => "@[import()] _".to_string(),
        // desugaring
        | 6 => format!("@[monadic({n})] {n}"),
        // type checking
        | 7 => format!("(\"m{n}\" : @[intrinsic(i64)] _)"),
        | 8 => format!("(9999999999999999999{n} : @[intrinsic(i64)] _)"),
        | 9 => format!("({n} {n})"),
        | 10 => format!("(ret {n})"),
        | 11 => format!("+Mix{n}()"),
        | 12 => format!("{{ fn p{n} q{n} => ret () }}"),
        | 13 => "_".to_string(),
        | 14 => "(_ : @[intrinsic(i64)] _)".to_string(),
        | 15 => format!("{{ fn .mix{n} => ret {n} }}"),
        // observations and plain values
        | 16 => format!("@[debug] {n}"),
        | _ => format!("{n}"),
    }
}

const SITE_FAMILIES: usize = 18;

/// One faulty (or merely unused) contribution to a `begin` block.
fn faulty_definition(family: usize, n: usize) -> String {
    match family {
        | 0 => format!("  let dup{n} = {n} that\n  let dup{n} = {n}{n} that\n"),
        | 1 => format!("  def bad{n} : Int64 = nope{n} that\n"),
        | 2 => format!("  def ty{n} : Int64 = \"t{n}\" that\n"),
        | 3 => format!("  def hole{n} : Int64 = _ that\n"),
        | 4 => format!("  def ! fun{n} (x{n}) : Ret Int64 = ret {n} that\n"),
        | 5 => format!("  def Data{n} : VType = data | +Ctor{n} : Nope{n} end that\n"),
        | 6 => format!("  def kind{n} : Int64 Int64 = {n} that\n"),
        | 7 => format!("  param (p{n} : q{n}) that\n  param (q{n} : p{n}) that\n"),
        | 8 => format!("  def dbg{n} : Int64 = @[debug] {n} that\n"),
        | _ => format!("  def fine{n} : Int64 = {n} that\n"),
    }
}

const DEFINITION_FAMILIES: usize = 10;

/// An executable block with 2-4 independent faulty definitions; half of the time one family.
fn faulty_block(rng: &mut Rng) -> Content {
    let count = rng.range(2, 4);
    let same = rng.chance(1, 2);
    let first = rng.below(DEFINITION_FAMILIES);
    let families: Vec<usize> =
        (0..count).map(|i| if same || i == 0 { first } else { rng.below(DEFINITION_FAMILIES) }).collect();
    let body: String = families.iter().enumerate().map(|(i, f)| faulty_definition(*f, i + 1)).collect();
    let name = format!("exec-defs{}", families.iter().map(|f| format!("-{f}")).collect::<String>());
    Content {
        name,
        template: format!(
            "begin\n  param ((/core; /representations; /system) : @(import(\"{BUILTIN}\"))) that\n  let (/VType; /Thk; /Ret; /Unit) = core that\n  let (/Scalar = Int64) = representations/i64 that\n  let (/stdio; /process) = system that\n  let code : Int64 = 3 that\n{body}  ! (stdio/write_line) \"defs\" {{ ! (process/exit) code }}\nend\n"
        ),
        imports: vec![],
        class: Class::Rejected,
    }
}

/// A right-nested tuple of 2-4 sites; half of the time all from one family.
fn mixed_sites(rng: &mut Rng) -> Content {
    let count = rng.range(2, 4);
    let same = rng.chance(1, 2);
    let first = rng.below(SITE_FAMILIES);
    let families: Vec<usize> =
        (0..count).map(|i| if same || i == 0 { first } else { rng.below(SITE_FAMILIES) }).collect();
    let mut text = site(families[count - 1], count);
    for index in (0..count - 1).rev() {
        text = format!("({}, {})", site(families[index], index + 1), text);
    }
    let name = format!("mix{}", families.iter().map(|f| format!("-{f}")).collect::<String>());
    // a malformed directive stops the loader; everything else is seen after loading
    let class = if families.iter().any(|f| matches!(f, 3 | 4 | 5)) { Class::DirectiveError } else { Class::Rejected };
    Content::plain(&name, &text, class)
}

fn executable(name: &str, code: &str, imports: Vec<ImportRef>, missing_arm: bool) -> Content {
    let body = if missing_arm && name.ends_with('7') {
        // two independent coverage gaps over different data types
        "begin\n    def Two : VType = data | +One : Unit | +Other : Unit end that\n    def Tri : VType = data | +Ta : Unit | +Tb : Unit | +Tc : Unit end that\n    let two : Two = +One() that\n    let tri : Tri = +Tb() that\n    match tri | +Tb(_) => match two | +One(_) => ! (stdio/write_line) \"one\" { ! (process/exit) code } end end\n  end"
            .to_string()
    } else if missing_arm {
        "begin\n    def Two : VType = data | +One : Unit | +Other : Unit end that\n    let two : Two = +One() that\n    match two | +One(_) => ! (stdio/write_line) \"one\" { ! (process/exit) code } end\n  end"
            .to_string()
    } else {
        format!("! (stdio/write_line) \"{name}\" {{ ! (process/exit) code }}")
    };
    Content {
        name: name.to_string(),
        template: format!(
            "begin\n  param ((/core; /representations; /system) : @(import(\"{BUILTIN}\"))) that\n  let (/VType; /Thk; /Ret; /Unit) = core that\n  let (/Scalar = Int64) = representations/i64 that\n  let (/stdio; /process) = system that\n  let code : Int64 = {code} that\n  {body}\nend\n"
        ),
        imports,
        class: Class::Executable,
    }
}

/// A content importing exactly these targets, in order (used by the enumerated graph family).
pub fn importing_all(targets: &[(usize, Spelling)]) -> Content {
    let imports: Vec<ImportRef> =
        targets.iter().map(|(slot, spelling)| ImportRef { slot: *slot, spelling: spelling.clone() }).collect();
    let template = match imports.len() {
        | 0 => "1".to_string(),
        | 1 => "@[import({0})] _".to_string(),
        | n => format!("({})", (0..n).map(|i| format!("@[import({{{i}}})] _")).collect::<Vec<_>>().join(", ")),
    };
    Content { name: format!("imports{}", imports.len()), template, imports, class: Class::Closed }
}

/// A content with a forced import list (used to plant cycles).
pub fn importing(targets: &[(usize, Spelling)]) -> Content {
    match targets {
        | [(slot, spelling)] => Content {
            name: "import1".into(),
            template: "@[import({0})] _".into(),
            imports: vec![ImportRef { slot: *slot, spelling: spelling.clone() }],
            class: Class::Closed,
        },
        | [(s0, p0), (s1, p1)] => Content {
            name: "import2".into(),
            template: "(@[import({0})] _, @[import({1})] _)".into(),
            imports: vec![
                ImportRef { slot: *s0, spelling: p0.clone() },
                ImportRef { slot: *s1, spelling: p1.clone() },
            ],
            class: Class::Closed,
        },
        | _ => panic!("importing: 1 or 2 targets"),
    }
}
