//! Normalised answers: every query of the public `CompilerSession` API is rendered to
//! a string in which only arena identity (key spaces) and the world prefix are masked,
//! so that a long-lived session and a fresh one can be compared byte for byte.

use crate::ops::Query;
use crate::world::Side;
use std::panic::{AssertUnwindSafe, catch_unwind};
use std::path::Path;
use std::sync::Arc;
use zydeco_session::{
    AnalysisError, AnalysisOutcome, CompilerSession, ProgramAnalysis, SourceCaches, SourceGraph, SourceLoadError,
};
use zydeco_statics::syntax::TermAnnId;
use zysim_common::strip_ansi;

/// How strictly load errors are compared.
#[derive(Clone, Copy, Debug, PartialEq, Eq)]
pub enum Strictness {
    /// fault-free configuration: everything exact
    Exact,
    /// fault-injecting configuration: the OS error kind/message of a *load* error is not
    /// compared (a slot first seen through `set_overlay` legitimately degrades EISDIR
    /// to "not found"); variant and paths still are
    MaskOsError,
}

pub struct Observer<'a> {
    pub side: &'a Side,
    pub strictness: Strictness,
}

/// Analysis handles kept from earlier steps of a history (per root path).
pub type Held = std::collections::BTreeMap<std::path::PathBuf, Arc<ProgramAnalysis>>;

/// Replace every `Id(k, n)` / `k#n` key space `k` by an ordinal of first appearance.
pub fn mask_key_spaces(text: &str) -> String {
    let bytes = text.as_bytes();
    let mut output = String::with_capacity(text.len());
    let mut seen: Vec<String> = Vec::new();
    let ordinal = |space: &str, seen: &mut Vec<String>| -> usize {
        match seen.iter().position(|s| s == space) {
            | Some(index) => index,
            | None => {
                seen.push(space.to_string());
                seen.len() - 1
            }
        }
    };
    let mut index = 0;
    while index < bytes.len() {
        // pattern 1: "Id(" digits ", " digits ")"
        if bytes[index] == b'(' && index >= 2 && &bytes[index - 2..index] == b"Id" {
            let mut cursor = index + 1;
            while cursor < bytes.len() && bytes[cursor].is_ascii_digit() {
                cursor += 1;
            }
            if cursor > index + 1 && bytes[cursor..].starts_with(b", ") {
                let mut tail = cursor + 2;
                while tail < bytes.len() && bytes[tail].is_ascii_digit() {
                    tail += 1;
                }
                if tail > cursor + 2 && tail < bytes.len() && bytes[tail] == b')' {
                    let space = &text[index + 1..cursor];
                    let number = ordinal(space, &mut seen);
                    output.push_str(&format!("(#{number}, {})", &text[cursor + 2..tail]));
                    index = tail + 1;
                    continue;
                }
            }
        }
        // pattern 2: digits '#' digits (concise ids), not preceded by an identifier char
        if bytes[index].is_ascii_digit()
            && (index == 0 || !(bytes[index - 1].is_ascii_alphanumeric() || bytes[index - 1] == b'_'))
        {
            let mut cursor = index;
            while cursor < bytes.len() && bytes[cursor].is_ascii_digit() {
                cursor += 1;
            }
            if cursor < bytes.len() && bytes[cursor] == b'#' {
                let mut tail = cursor + 1;
                while tail < bytes.len() && bytes[tail].is_ascii_digit() {
                    tail += 1;
                }
                if tail > cursor + 1 {
                    let number = ordinal(&text[index..cursor], &mut seen);
                    output.push_str(&format!("#{number}#{}", &text[cursor + 1..tail]));
                    index = tail;
                    continue;
                }
            }
            // plain number: copy whole run so a later '#' check does not start mid-number
            output.push_str(&text[index..cursor]);
            index = cursor;
            continue;
        }
        let ch = text[index..].chars().next().unwrap();
        output.push(ch);
        index += ch.len_utf8();
    }
    output
}

impl Observer<'_> {
    fn unprefix(&self, text: &str) -> String {
        text.replace(&self.side.prefix(), "<W>")
    }

    fn path(&self, path: &Path) -> String {
        self.unprefix(&path.to_string_lossy())
    }

    fn io(&self, error: &std::io::Error) -> String {
        match self.strictness {
            | Strictness::Exact => format!("{:?}:{}", error.kind(), error),
            | Strictness::MaskOsError => "<os-error>".to_string(),
        }
    }

    pub fn load_error(&self, error: &SourceLoadError) -> String {
        match error {
            | SourceLoadError::RootPath { path, source } => {
                format!("RootPath({}, {})", self.path(path), self.io(source))
            }
            | SourceLoadError::ImportPath { importer, requested, span, source } => format!(
                "ImportPath(importer={}, requested={}, span={}, {})",
                self.path(importer),
                self.path(requested),
                self.unprefix(&span.to_string()),
                self.io(source)
            ),
            | SourceLoadError::ImportInput { importer, input, span, source } => format!(
                "ImportInput(importer={}, input={input}, span={}, {})",
                self.path(importer),
                self.unprefix(&span.to_string()),
                self.io(source)
            ),
            | SourceLoadError::Read { path, source } => format!("Read({}, {})", self.path(path), self.io(source)),
            | SourceLoadError::Parse(error) => format!("Parse({})", self.unprefix(&error.to_string())),
            | SourceLoadError::Cycle(cycle) => format!("Cycle({})", self.unprefix(&cycle.to_string())),
        }
    }

    pub fn graph(&self, graph: &SourceGraph) -> String {
        let mut sources: Vec<String> = graph
            .sources
            .iter()
            .map(|(_, file)| {
                format!(
                    "  source {} kind={:?} signature={} text={:?}",
                    self.path(&file.path),
                    file.kind(),
                    file.signature
                        .map(|signature| self.path(&graph.sources[&signature].path))
                        .unwrap_or_else(|| "-".into()),
                    self.unprefix(&file.source)
                )
            })
            .collect();
        sources.sort();
        let mut imports: Vec<String> = graph
            .imports
            .iter()
            .map(|(_, import)| {
                format!(
                    "  import {} -> {} at {}",
                    self.path(&graph.sources[&import.importer].path),
                    self.path(&graph.sources[&import.imported].path),
                    self.unprefix(&import.span.to_string())
                )
            })
            .collect();
        imports.sort();
        let order: Vec<String> =
            graph.provider_order().into_iter().map(|source| self.path(&graph.sources[&source].path)).collect();
        let mut warnings: Vec<String> = graph
            .warnings()
            .into_iter()
            .map(|site| format!("  warning {} {:?} {}", self.path(site.path()), site.warning.range(), site.warning.code()))
            .collect();
        warnings.sort();
        format!(
            "graph root={}\n{}\n{}\n  order {}\n{}",
            self.path(&graph.sources[&graph.root].path),
            sources.join("\n"),
            imports.join("\n"),
            order.join(" < "),
            warnings.join("\n")
        )
    }

    fn reports(&self, reports: &zydeco_statics::TyckReports, analysis: &ProgramAnalysis) -> String {
        let mut cache = SourceCaches::analysis(analysis);
        let mut rendered = String::new();
        for report in reports.reports.iter() {
            let mut buffer = Vec::new();
            let _ = report.write(&mut cache, &mut buffer);
            rendered.push_str(&strip_ansi(&String::from_utf8_lossy(&buffer)));
            rendered.push_str("\n----\n");
        }
        let spans: Vec<String> = reports
            .spans
            .iter()
            .map(|entry| match entry {
                | Some((path, range, message)) => format!("{}:{:?}:{}", path, range, message),
                | None => "-".to_string(),
            })
            .collect();
        mask_key_spaces(&self.unprefix(&format!("{rendered}spans: {}", spans.join(" | "))))
    }

    pub fn analysis_error(&self, error: &AnalysisError) -> String {
        match error {
            | AnalysisError::Source { error } => format!("Source({})", self.load_error(error)),
            | AnalysisError::TextualProgram { error } => {
                format!("TextualProgram({})", mask_key_spaces(&self.unprefix(&error.to_string())))
            }
            | AnalysisError::Desugar { error } => {
                format!("Desugar({})", mask_key_spaces(&self.unprefix(&error.to_string())))
            }
            | AnalysisError::Resolve { error, graph } => {
                let mut buffer = Vec::new();
                let _ = error.to_report().write(SourceCaches::graph(graph), &mut buffer);
                format!(
                    "Resolve({})\n{}",
                    mask_key_spaces(&self.unprefix(&strip_ansi(&String::from_utf8_lossy(&buffer)))),
                    self.graph(graph)
                )
            }
        }
    }

    fn root_sort(root: &TermAnnId) -> &'static str {
        match root {
            | TermAnnId::Hole(_) => "hole",
            | TermAnnId::Kind(_) => "kind",
            | TermAnnId::Type(..) => "type",
            | TermAnnId::Value(..) => "value",
            | TermAnnId::Compu(..) => "computation",
        }
    }

    pub fn analysis(&self, analysis: &ProgramAnalysis) -> String {
        let outcome = match analysis.outcome() {
            | AnalysisOutcome::Checked { root } => {
                format!("Checked({} {})", Self::root_sort(root), mask_key_spaces(&format!("{root:?}")))
            }
            | AnalysisOutcome::Rejected { reports } => format!("Rejected\n{}", self.reports(reports, analysis)),
        };
        let observations = mask_key_spaces(&self.unprefix(&format!("{:?}", analysis.observations())));
        format!("{}\noutcome {}\nobservations {}", self.graph(analysis.graph()), outcome, observations)
    }

    fn analyze(&self, session: &CompilerSession, root: &Path) -> Result<Arc<ProgramAnalysis>, String> {
        session.analyze(root).map_err(|error| self.analysis_error(&error))
    }

    /// As [`Self::ask`]; the `*Held` queries use the handle kept for `root` in `held`, if any
    /// (and every successful analysis may be kept for later).
    pub fn ask_holding(&self, session: &CompilerSession, root: &Path, query: &Query, held: &mut Held, keep: bool) -> String {
        let result = catch_unwind(AssertUnwindSafe(|| {
            let fresh_equivalent = match query {
                | Query::ExecuteHeld => Query::Execute,
                | Query::CheckedProgramHeld => Query::CheckedProgram,
                | Query::MaterializeArenaHeld => Query::MaterializeArena,
                | other => other.clone(),
            };
            if fresh_equivalent != *query {
                if let Some(handle) = held.get(root).cloned() {
                    return self.with_handle(session, &handle, &fresh_equivalent);
                }
            }
            let answer = self.ask_inner(session, root, query);
            if keep {
                // keeping a handle must never change the answer (the analysis may panic: C10)
                if let Ok(Ok(analysis)) = catch_unwind(AssertUnwindSafe(|| session.analyze(root))) {
                    held.insert(root.to_path_buf(), analysis);
                }
            }
            answer
        }));
        match result {
            | Ok(answer) => answer,
            | Err(payload) => {
                let message = zysim_common::panic_message(&*payload);
                format!("PANIC {}", mask_key_spaces(&self.unprefix(&message)))
            }
        }
    }

    /// The three queries that take an analysis handle, called with `handle`.
    fn with_handle(&self, session: &CompilerSession, handle: &ProgramAnalysis, query: &Query) -> String {
        match query {
            | Query::CheckedProgram => match session.checked_program(handle) {
                | None => "none".to_string(),
                | Some(program) => format!(
                    "some root={} types_pre={} values={} compus={} terms={}",
                    mask_key_spaces(&format!("{:?}", program.root)),
                    program.statics.types_pre.len(),
                    program.statics.values.len(),
                    program.statics.compus.len(),
                    program.scoped.terms.len()
                ),
            },
            | Query::MaterializeArena => match session.materialize_arena(handle) {
                | Err(error) => format!("Err {}", self.analysis_error(&error)),
                | Ok(arena) => format!(
                    "Ok types_pre={} kinds_pre={} values={} compus={} types_normalized={} annotations_compu={}",
                    arena.types_pre.len(),
                    arena.kinds_pre.len(),
                    arena.values.len(),
                    arena.compus.len(),
                    arena.types_normalized.len(),
                    arena.annotations_compu.len()
                ),
            },
            | _ => match session.executable_program(handle) {
                | Err(error) => format!("NotExecutable {}", mask_key_spaces(&error.to_string())),
                | Ok(executable) => self.execute(executable),
            },
        }
    }

    /// Ask `query` about `root` and render the answer.  Panics are part of the answer.
    pub fn ask(&self, session: &CompilerSession, root: &Path, query: &Query) -> String {
        let result = catch_unwind(AssertUnwindSafe(|| self.ask_inner(session, root, query)));
        match result {
            | Ok(answer) => answer,
            | Err(payload) => {
                let message = zysim_common::panic_message(&*payload);
                format!("PANIC {}", mask_key_spaces(&self.unprefix(&message)))
            }
        }
    }

    /// As [`Self::ask`], but unwinds (salsa cancellation, panics) are left to the caller.
    pub fn ask_raw(&self, session: &CompilerSession, root: &Path, query: &Query) -> String {
        self.ask_inner(session, root, query)
    }

    fn ask_inner(&self, session: &CompilerSession, root: &Path, query: &Query) -> String {
        match query {
            | Query::Graph => match session.graph(root) {
                | Ok(graph) => format!("Ok {}", self.graph(&graph)),
                | Err(error) => format!("Err {}", self.load_error(&error)),
            },
            | Query::Analyze => match self.analyze(session, root) {
                | Ok(analysis) => format!("Ok {}", self.analysis(&analysis)),
                | Err(error) => format!("Err {error}"),
            },
            | Query::Reports => match session.reports(root) {
                | Ok(None) => "Ok none".to_string(),
                | Ok(Some(reports)) => match self.analyze(session, root) {
                    | Ok(analysis) => format!("Ok some\n{}", self.reports(&reports, &analysis)),
                    | Err(error) => format!("Ok some-but-analysis-fails {error}"),
                },
                | Err(error) => format!("Err {}", self.analysis_error(&error)),
            },
            | Query::Coverage => match session.coverage(root) {
                | Ok(errors) => format!("Ok {}", mask_key_spaces(&self.unprefix(&format!("{errors:?}")))),
                | Err(error) => format!("Err {}", self.analysis_error(&error)),
            },
            | Query::Facts => self.facts(session, root),
            | Query::CheckedProgram => match self.analyze(session, root) {
                | Err(error) => format!("Err {error}"),
                | Ok(analysis) => match session.checked_program(&analysis) {
                    | None => "none".to_string(),
                    | Some(program) => format!(
                        "some root={} types_pre={} values={} compus={} terms={}",
                        mask_key_spaces(&format!("{:?}", program.root)),
                        program.statics.types_pre.len(),
                        program.statics.values.len(),
                        program.statics.compus.len(),
                        program.scoped.terms.len()
                    ),
                },
            },
            | Query::MaterializeArena => match self.analyze(session, root) {
                | Err(error) => format!("Err {error}"),
                | Ok(analysis) => match session.materialize_arena(&analysis) {
                    | Err(error) => format!("Err {}", self.analysis_error(&error)),
                    | Ok(arena) => format!(
                        "Ok types_pre={} kinds_pre={} values={} compus={} types_normalized={} annotations_compu={}",
                        arena.types_pre.len(),
                        arena.kinds_pre.len(),
                        arena.values.len(),
                        arena.compus.len(),
                        arena.types_normalized.len(),
                        arena.annotations_compu.len()
                    ),
                },
            },
            | Query::Execute => match self.analyze(session, root) {
                | Err(error) => format!("Err {error}"),
                | Ok(analysis) => match session.executable_program(&analysis) {
                    | Err(error) => format!("NotExecutable {}", mask_key_spaces(&error.to_string())),
                    | Ok(executable) => self.execute(executable),
                },
            },
            | Query::CheckResolved => self.check_resolved(session, root),
            // Without a kept handle: what the handle-taking API answers when the root cannot be
            // analysed (it only uses the handle's root path, so a caller holding an older handle
            // gets exactly this): not executable / no program / the analysis error.
            | Query::ExecuteHeld | Query::CheckedProgramHeld | Query::MaterializeArenaHeld => {
                match session.analyze(root) {
                    | Ok(analysis) => self.with_handle(
                        session,
                        &analysis,
                        &match query {
                            | Query::ExecuteHeld => Query::Execute,
                            | Query::CheckedProgramHeld => Query::CheckedProgram,
                            | _ => Query::MaterializeArena,
                        },
                    ),
                    | Err(error) => match query {
                        | Query::ExecuteHeld => format!("NotExecutable {}", zydeco_session::ExecutableError::Materialize),
                        | Query::CheckedProgramHeld => "none".to_string(),
                        | _ => format!("Err {}", self.analysis_error(&error)),
                    },
                }
            }
        }
    }

    fn execute(&self, executable: zydeco_session::ExecutableProgram) -> String {
        let linked = zydeco_dynamics::BuiltinRootLinker {
            scoped: executable.scoped,
            statics: executable.statics,
            root: executable.root,
            signature: executable.signature,
        }
        .run();
        let dynamics = match linked {
            | Ok(dynamics) => dynamics,
            | Err(error) => return format!("LinkError {}", mask_key_spaces(&error.to_string())),
        };
        let mut input = std::io::empty();
        let mut input = std::io::BufReader::new(&mut input);
        let mut output: Vec<u8> = Vec::new();
        let kont = zydeco_dynamics::Runtime::new(&mut input, &mut output, &[], dynamics).run();
        let kont = match kont {
            | zydeco_dynamics::ProgKont::Dry => "dry".to_string(),
            | zydeco_dynamics::ProgKont::ExitCode(code) => format!("exit({code})"),
            | zydeco_dynamics::ProgKont::Ret(_) => "ret".to_string(),
        };
        format!("Ran {kont} output={:?}", String::from_utf8_lossy(&output))
    }

    fn facts(&self, session: &CompilerSession, root: &Path) -> String {
        let analysis = match self.analyze(session, root) {
            | Ok(analysis) => analysis,
            | Err(error) => return format!("Err {error}"),
        };
        // Key spaces are process-history dependent (and derived spaces inherit that), so
        // every line is masked on its own and unordered groups are sorted *after* masking.
        let mask = |line: String| mask_key_spaces(&self.unprefix(&line));
        let mut lines: Vec<String> = Vec::new();
        let mut top_types = Vec::new();
        for (term, _) in analysis.scoped().terms.iter() {
            let annotation = session.annotation_of_term(root, term);
            match annotation {
                | Ok(Some(annotation)) => {
                    match annotation {
                        | TermAnnId::Value(_, ty) | TermAnnId::Compu(_, ty) => top_types.push(ty),
                        | _ => {}
                    }
                    lines.push(mask(format!("term {term:?} => {annotation:?}")));
                }
                | Ok(None) => lines.push(mask(format!("term {term:?} => none"))),
                | Err(error) => lines.push(mask(format!("term {term:?} => Err {}", self.analysis_error(&error)))),
            }
        }
        // arenas are paged by key space in a hash map: iteration order is identity-dependent
        lines.sort();
        let mut group: Vec<String> = Vec::new();
        for (def, name) in analysis.scoped().defs.iter() {
            let annotation = session.annotation_of_def(root, *def).map_err(|e| self.analysis_error(&e));
            let definition = session.type_definition_of_def(root, *def).map_err(|e| self.analysis_error(&e));
            group.push(mask(format!("def {def:?} {name:?} => ann={annotation:?} tydef={definition:?}")));
        }
        group.sort();
        lines.append(&mut group);
        top_types.sort();
        top_types.dedup();
        for ty in top_types {
            let normalized = session.normalized_type(root, ty).map_err(|e| self.analysis_error(&e));
            group.push(mask(format!("type {ty:?} => {normalized:?}")));
        }
        group.sort();
        lines.append(&mut group);
        for (fill, _) in analysis.statics().fills.iter() {
            let solution = session.fill_solution(root, *fill).map_err(|e| self.analysis_error(&e));
            group.push(mask(format!("fill {fill:?} => {solution:?}")));
        }
        group.sort();
        lines.append(&mut group);
        lines.join("\n")
    }

    /// Resolve the current program of `root` outside the session and hand it to
    /// `check_resolved`; the answer is the verdict for *that* program.
    fn check_resolved(&self, session: &CompilerSession, root: &Path) -> String {
        use zydeco_surface::{bitter::SourceUnitDesugarer, scoped::Resolver};
        use zydeco_utils::pass::CompilerPass;
        let graph = match session.graph(root) {
            | Ok(graph) => graph,
            | Err(error) => return format!("NoGraph {}", self.load_error(&error)),
        };
        let program = match graph.parse() {
            | Ok(program) => program,
            | Err(error) => return format!("NoProgram {}", self.unprefix(&error.to_string())),
        };
        let zydeco_session::source::TextualProgram { spans, arena, unit } = program;
        let desugared = match SourceUnitDesugarer::new(&spans, &arena, unit).run() {
            | Ok(out) => out,
            | Err(error) => return format!("NoDesugar {}", mask_key_spaces(&self.unprefix(&error.to_string()))),
        };
        let zydeco_surface::bitter::SourceDesugarOut { arena, prim, root: bitter_root } = desugared;
        let resolved = match Resolver::new(&spans, arena, prim).run_source(bitter_root) {
            | Ok(out) => out,
            | Err(_) => return "NoResolve".to_string(),
        };
        let zydeco_surface::scoped::ResolveSourceOut { prim, arena, root: scoped_root } = resolved;
        let output = session.check_resolved(spans, prim, arena, scoped_root);
        match output.outcome {
            | zydeco_statics::SourceCheckOutcome::Checked(checked) => format!(
                "Checked({} terms={})",
                Self::root_sort(&checked.root),
                output.scoped.terms.len()
            ),
            | zydeco_statics::SourceCheckOutcome::Rejected(rejected) => {
                let messages: Vec<String> = rejected
                    .reports
                    .spans
                    .iter()
                    .map(|entry| match entry {
                        | Some((path, range, message)) => format!("{}:{:?}:{}", path, range, message),
                        | None => "-".to_string(),
                    })
                    .collect();
                format!(
                    "Rejected(terms={}) {}",
                    output.scoped.terms.len(),
                    mask_key_spaces(&self.unprefix(&messages.join(" | ")))
                )
            }
        }
    }
}
