//! C09 reference model: reachability over import and companion edges on canonical slot
//! identities, evaluated on the contents the session is known to believe.

use crate::content::{Class, Content};
use crate::world::{Effective, Model, SLOTS, Side, never_loads};
use std::collections::{BTreeMap, BTreeSet};
use std::sync::Arc;
use zydeco_session::{SourceGraph, SourceLoadError};

#[derive(Clone, Debug, PartialEq, Eq, PartialOrd, Ord)]
pub enum Edge {
    Import { from: usize, to: usize },
    Signature { implementation: usize, signature: usize },
}

impl Edge {
    pub fn ends(&self) -> (usize, usize) {
        match self {
            | Edge::Import { from, to } => (*from, *to),
            | Edge::Signature { implementation, signature } => (*implementation, *signature),
        }
    }
}

#[derive(Clone, Debug)]
pub struct Reference {
    pub reachable: BTreeSet<usize>,
    /// import occurrences (a multiset: the same file may be imported twice)
    pub imports: Vec<(usize, usize)>,
    pub signatures: BTreeMap<usize, usize>,
    /// reachable files (or import sites) that cannot be loaded
    pub problems: Vec<String>,
    pub cyclic: bool,
    /// some reachable content imports the (static, external) builtin library
    pub external: bool,
}

impl Reference {
    pub fn new(model: &Model, root: usize) -> Self {
        let mut reference = Reference {
            reachable: BTreeSet::new(),
            imports: Vec::new(),
            signatures: BTreeMap::new(),
            problems: Vec::new(),
            cyclic: false,
            external: false,
        };
        let mut stack = vec![root];
        while let Some(slot) = stack.pop() {
            if !reference.reachable.insert(slot) {
                continue;
            }
            match model.effective(slot) {
                | Effective::Absent => reference.problems.push(format!("{} is absent", SLOTS[slot])),
                | Effective::Unreadable => reference.problems.push(format!("{} is unreadable", SLOTS[slot])),
                | Effective::Text(content) => {
                    if !content.loads() {
                        reference.problems.push(format!("{} does not parse ({})", SLOTS[slot], content.name));
                    } else {
                        if content.class == Class::Executable || content.template.contains(crate::content::BUILTIN) {
                            reference.external = true;
                        }
                        for import in &content.imports {
                            if never_loads(import.slot) {
                                reference.problems.push(format!("{} imports a missing file", SLOTS[slot]));
                            } else {
                                reference.imports.push((slot, import.slot));
                                stack.push(import.slot);
                            }
                        }
                    }
                }
            }
            if let Some(companion) = model.companion_of(slot) {
                match model.effective(companion) {
                    | Effective::Absent => {}
                    | Effective::Unreadable => {
                        reference.problems.push(format!("companion {} is unreadable", SLOTS[companion]))
                    }
                    | Effective::Text(_) => {
                        reference.signatures.insert(slot, companion);
                        stack.push(companion);
                    }
                }
            }
        }
        reference.cyclic = reference.has_cycle(root);
        reference
    }

    pub fn edges(&self) -> Vec<Edge> {
        self.imports
            .iter()
            .map(|(from, to)| Edge::Import { from: *from, to: *to })
            .chain(
                self.signatures
                    .iter()
                    .map(|(implementation, signature)| Edge::Signature { implementation: *implementation, signature: *signature }),
            )
            .collect()
    }

    fn has_cycle(&self, root: usize) -> bool {
        let mut successors: BTreeMap<usize, Vec<usize>> = BTreeMap::new();
        for edge in self.edges() {
            let (from, to) = edge.ends();
            successors.entry(from).or_default().push(to);
        }
        fn visit(node: usize, successors: &BTreeMap<usize, Vec<usize>>, state: &mut BTreeMap<usize, u8>) -> bool {
            state.insert(node, 1);
            for next in successors.get(&node).into_iter().flatten() {
                match state.get(next) {
                    | Some(1) => return true,
                    | Some(_) => {}
                    | None => {
                        if visit(*next, successors, state) {
                            return true;
                        }
                    }
                }
            }
            state.insert(node, 2);
            false
        }
        visit(root, &successors, &mut BTreeMap::new())
    }

    /// Judge the session's answer.  `Err(message)` is a C09 violation.
    pub fn judge(
        &self, side: &Side, answer: &Result<Arc<SourceGraph>, Arc<SourceLoadError>>,
    ) -> Result<(), String> {
        let slot_of = |path: &std::path::Path| -> Option<usize> {
            (0..SLOTS.len()).find(|slot| side.path(*slot) == path)
        };
        if !self.problems.is_empty() {
            return match answer {
                | Ok(_) => Err(format!("graph loaded although {}", self.problems.join("; "))),
                | Err(error) if matches!(**error, SourceLoadError::Cycle(_)) => {
                    Err(format!("a cycle is reported although a reachable file cannot be loaded ({})", self.problems.join("; ")))
                }
                | Err(_) => Ok(()),
            };
        }
        if self.cyclic {
            let cycle = match answer {
                | Ok(_) => return Err("G3: the model has a dependency cycle but the graph was accepted".to_string()),
                | Err(error) => match &**error {
                    | SourceLoadError::Cycle(cycle) => cycle,
                    | other => return Err(format!("G3: expected a cycle error, got `{other}`")),
                },
            };
            if cycle.steps.is_empty() {
                return Err("G3: cycle error with no steps".to_string());
            }
            let edges: BTreeSet<(usize, usize)> = self.edges().iter().map(Edge::ends).collect();
            let mut ends = Vec::new();
            for step in &cycle.steps {
                let (Some(from), Some(to)) = (slot_of(&step.dependent), slot_of(&step.dependency)) else {
                    return Err(format!(
                        "G3: cycle step names a path outside the world: {} -> {}",
                        step.dependent.display(),
                        step.dependency.display()
                    ));
                };
                if !edges.contains(&(from, to)) {
                    return Err(format!("G3: reported step {} -> {} is not a real edge", SLOTS[from], SLOTS[to]));
                }
                let is_signature = matches!(step.kind, zydeco_session::source::SourceDependencyKind::Signature);
                let model_signature = self.signatures.get(&from) == Some(&to);
                let model_import = self.imports.contains(&(from, to));
                if (is_signature && !model_signature) || (!is_signature && !model_import) {
                    return Err(format!(
                        "G3: step {} -> {} reported with the wrong edge kind",
                        SLOTS[from], SLOTS[to]
                    ));
                }
                ends.push((from, to));
            }
            for index in 0..ends.len() {
                let next = ends[(index + 1) % ends.len()];
                if ends[index].1 != next.0 {
                    return Err(format!(
                        "G3: reported steps do not close a chain ({} -> {} followed by {} -> {})",
                        SLOTS[ends[index].0], SLOTS[ends[index].1], SLOTS[next.0], SLOTS[next.1]
                    ));
                }
            }
            return Ok(());
        }
        let graph = match answer {
            | Ok(graph) => graph,
            | Err(error) => return Err(format!("the model graph is loadable and acyclic, but loading failed: {error}")),
        };
        // G1 + G2
        let mut seen = BTreeSet::new();
        let mut id_to_slot = BTreeMap::new();
        let external = |path: &std::path::Path| self.external && path.starts_with("/repo/lib/std");
        for (id, file) in graph.sources.iter() {
            if external(&file.path) {
                continue; // the static builtin library, outside the simulated world
            }
            let Some(slot) = slot_of(&file.path) else {
                return Err(format!("G1: source {} is not a canonical world path", file.path.display()));
            };
            if !seen.insert(slot) {
                return Err(format!("G1: {} occurs twice in the source graph", SLOTS[slot]));
            }
            id_to_slot.insert(id, slot);
        }
        if seen != self.reachable {
            let names = |set: &BTreeSet<usize>| set.iter().map(|s| SLOTS[*s]).collect::<Vec<_>>().join(",");
            return Err(format!("G2: sources {{{}}} differ from the reachable set {{{}}}", names(&seen), names(&self.reachable)));
        }
        for (id, file) in graph.sources.iter() {
            let Some(slot) = id_to_slot.get(&id).copied() else {
                continue;
            };
            let actual = file.signature.map(|signature| id_to_slot[&signature]);
            let expected = self.signatures.get(&slot).copied();
            if actual != expected {
                return Err(format!(
                    "G2: companion of {} is {:?}, the model says {:?}",
                    SLOTS[slot],
                    actual.map(|s| SLOTS[s]),
                    expected.map(|s| SLOTS[s])
                ));
            }
        }
        let mut actual_imports: Vec<(usize, usize)> = graph
            .imports
            .iter()
            .filter(|(_, import)| id_to_slot.contains_key(&import.importer) && id_to_slot.contains_key(&import.imported))
            .map(|(_, import)| (id_to_slot[&import.importer], id_to_slot[&import.imported]))
            .collect();
        actual_imports.sort();
        let mut expected_imports = self.imports.clone();
        expected_imports.sort();
        if actual_imports != expected_imports {
            return Err(format!("G2: import occurrences {actual_imports:?} differ from the model {expected_imports:?}"));
        }
        // G4
        let order: Vec<usize> =
            graph.provider_order().into_iter().filter_map(|id| id_to_slot.get(&id).copied()).collect();
        let mut sorted = order.clone();
        sorted.sort();
        sorted.dedup();
        if sorted.len() != order.len() || sorted.into_iter().collect::<BTreeSet<_>>() != self.reachable {
            return Err(format!("G4: provider order {order:?} is not a permutation of the sources"));
        }
        for edge in self.edges() {
            let (consumer, provider) = edge.ends();
            let position = |slot| order.iter().position(|s| *s == slot).unwrap();
            if position(provider) >= position(consumer) {
                return Err(format!(
                    "G4: provider {} is listed after its consumer {}",
                    SLOTS[provider], SLOTS[consumer]
                ));
            }
        }
        Ok(())
    }

    /// G5: the single-file text obtained by writing each provider's term at its import
    /// site, when every reachable content is a closed term (`None` otherwise).
    pub fn inlined(&self, model: &Model, side: &Side, root: usize) -> Option<String> {
        if !self.problems.is_empty() || self.cyclic {
            return None;
        }
        if self.reachable.iter().any(|slot| SLOTS[*slot].ends_with(".zyi") && !self.signatures.values().any(|s| s == slot)) {
            return None; // a signature file imported directly or used as a root
        }
        fn text_of(
            reference: &Reference, model: &Model, side: &Side, slot: usize, depth: usize,
        ) -> Option<String> {
            if depth > 12 {
                return None;
            }
            let Effective::Text(content) = model.effective(slot) else {
                return None;
            };
            let body = expand(reference, model, side, slot, &content, depth)?;
            match reference.signatures.get(&slot) {
                | Some(signature) => {
                    let Effective::Text(sig) = model.effective(*signature) else {
                        return None;
                    };
                    if sig.class != Class::Signature {
                        return None;
                    }
                    let sig_text = expand(reference, model, side, *signature, &sig, depth)?;
                    Some(format!("(({body}) : ({sig_text}))"))
                }
                | None => Some(body),
            }
        }
        fn expand(
            reference: &Reference, model: &Model, side: &Side, holder: usize, content: &Content, depth: usize,
        ) -> Option<String> {
            if !matches!(content.class, Class::Closed | Class::Executable | Class::Signature) {
                return None;
            }
            let mut text = content.template.clone();
            for (index, import) in content.imports.iter().enumerate() {
                let provider = text_of(reference, model, side, import.slot, depth + 1)?;
                let marker = format!("@[import({{{index}}})] _");
                if !text.contains(&marker) {
                    return None;
                }
                text = text.replace(&marker, &format!("({provider})"));
            }
            let _ = (side, holder);
            Some(text)
        }
        text_of(self, model, side, root, 0)
    }
}
