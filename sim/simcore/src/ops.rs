//! The history alphabet: operations on the long-lived session and its disk, their
//! preconditions (shared by the generator and by replay/minimisation, so a shrunk
//! history never asks more than the properties state) and their effect on the model.

use crate::content::Content;
use crate::world::{Disk, Model, SLOT_H, SLOTS, Status};
use zysim_common::{Value, json};

#[derive(Clone, Debug, PartialEq, Eq)]
pub enum Query {
    Graph,
    Analyze,
    Reports,
    Coverage,
    /// normalized_type / annotation_of_term / annotation_of_def / type_definition_of_def /
    /// fill_solution for ids of the current analysis
    Facts,
    CheckedProgram,
    MaterializeArena,
    /// executable_program + interpretation on empty stdin
    Execute,
    /// check_resolved of the current resolved root
    CheckResolved,
    /// executable_program / checked_program / materialize_arena called with an analysis handle
    /// obtained *earlier* in the history (documented: only its root path is used; a stale
    /// analysis re-checks its root)
    ExecuteHeld,
    CheckedProgramHeld,
    MaterializeArenaHeld,
}

impl Query {
    pub const ALL: [Query; 12] = [
        Query::Graph,
        Query::Analyze,
        Query::Reports,
        Query::Coverage,
        Query::Facts,
        Query::CheckedProgram,
        Query::MaterializeArena,
        Query::Execute,
        Query::CheckResolved,
        Query::ExecuteHeld,
        Query::CheckedProgramHeld,
        Query::MaterializeArenaHeld,
    ];
    pub fn label(&self) -> &'static str {
        match self {
            | Query::Graph => "graph",
            | Query::Analyze => "analyze",
            | Query::Reports => "reports",
            | Query::Coverage => "coverage",
            | Query::Facts => "facts",
            | Query::CheckedProgram => "checked_program",
            | Query::MaterializeArena => "materialize_arena",
            | Query::Execute => "execute",
            | Query::CheckResolved => "check_resolved",
            | Query::ExecuteHeld => "execute(held)",
            | Query::CheckedProgramHeld => "checked_program(held)",
            | Query::MaterializeArenaHeld => "materialize_arena(held)",
        }
    }
    pub fn parse(text: &str) -> Option<Self> {
        Query::ALL.iter().find(|q| q.label() == text).cloned()
    }
}

#[derive(Clone, Debug, PartialEq, Eq)]
pub enum Op {
    SetOverlay { slot: usize, content: Content },
    ClearOverlay { slot: usize },
    /// write the file, then `refresh_disk`
    WriteRefresh { slot: usize, content: Content },
    /// disk fault: rewrite the file with other bytes of the *same length* and restore its
    /// modification time (cp -p, rsync -t, a coarse-timestamp file system), then `refresh_disk`
    StampedWriteRefresh { slot: usize, content: Content },
    /// delete the file, then `refresh_disk`
    DeleteRefresh { slot: usize },
    /// disk fault: the path becomes a directory, then `refresh_disk`
    FaultDirectory { slot: usize },
    /// disk fault: the file holds invalid UTF-8, then `refresh_disk`
    FaultGarbage { slot: usize },
    /// disk fault: the file changes and the session is *not* told
    SilentWrite { slot: usize, content: Content },
    /// disk fault: the file vanishes and the session is *not* told
    SilentDelete { slot: usize },
    /// `refresh_disk` with nothing changed (or after silent changes)
    Refresh { slot: usize },
    /// memory pressure: `trigger_lru_eviction`
    Evict,
    /// a query on the long-lived session
    Ask { root: usize, query: Query },
    /// the same query through a transient `snapshot()` that is opened, used and dropped
    AskSnapshot { root: usize, query: Query },
}

impl Op {
    pub fn kind(&self) -> &'static str {
        match self {
            | Op::SetOverlay { .. } => "set_overlay",
            | Op::ClearOverlay { .. } => "clear_overlay",
            | Op::WriteRefresh { .. } => "write+refresh",
            | Op::StampedWriteRefresh { .. } => "fault:same-size-same-mtime-write+refresh",
            | Op::DeleteRefresh { .. } => "delete+refresh",
            | Op::FaultDirectory { .. } => "fault:directory+refresh",
            | Op::FaultGarbage { .. } => "fault:garbage+refresh",
            | Op::SilentWrite { .. } => "fault:silent-write",
            | Op::SilentDelete { .. } => "fault:silent-delete",
            | Op::Refresh { .. } => "refresh",
            | Op::Evict => "evict",
            | Op::Ask { .. } => "ask",
            | Op::AskSnapshot { .. } => "ask-snapshot",
        }
    }

    pub fn is_fault(&self) -> bool {
        matches!(
            self,
            Op::FaultDirectory { .. }
                | Op::FaultGarbage { .. }
                | Op::SilentWrite { .. }
                | Op::SilentDelete { .. }
                | Op::StampedWriteRefresh { .. }
        )
    }

    pub fn is_query(&self) -> bool {
        matches!(self, Op::Ask { .. } | Op::AskSnapshot { .. })
    }

    pub fn slot(&self) -> Option<usize> {
        match self {
            | Op::SetOverlay { slot, .. }
            | Op::ClearOverlay { slot }
            | Op::WriteRefresh { slot, .. }
            | Op::StampedWriteRefresh { slot, .. }
            | Op::DeleteRefresh { slot }
            | Op::FaultDirectory { slot }
            | Op::FaultGarbage { slot }
            | Op::SilentWrite { slot, .. }
            | Op::SilentDelete { slot }
            | Op::Refresh { slot } => Some(*slot),
            | Op::Ask { root, .. } | Op::AskSnapshot { root, .. } => Some(*root),
            | Op::Evict => None,
        }
    }

    pub fn content(&self) -> Option<&Content> {
        match self {
            | Op::SetOverlay { content, .. }
            | Op::WriteRefresh { content, .. }
            | Op::StampedWriteRefresh { content, .. }
            | Op::SilentWrite { content, .. } => Some(content),
            | _ => None,
        }
    }

    pub fn abstract_label(&self) -> String {
        match self {
            | Op::Ask { root, query } | Op::AskSnapshot { root, query } => {
                format!("{}:{}:{}", self.kind(), SLOTS[*root], query.label())
            }
            | other => format!(
                "{}:{}:{}",
                other.kind(),
                other.slot().map(|s| SLOTS[s]).unwrap_or("-"),
                other.content().map(|c| c.name.as_str()).unwrap_or("-")
            ),
        }
    }

    pub fn to_json(&self) -> Value {
        match self {
            | Op::Ask { root, query } | Op::AskSnapshot { root, query } => {
                json!({"op": self.kind(), "root": root, "path": SLOTS[*root], "query": query.label()})
            }
            | Op::Evict => json!({"op": "evict"}),
            | other => {
                let slot = other.slot().unwrap();
                let mut value = json!({"op": other.kind(), "slot": slot, "path": SLOTS[slot]});
                if let Some(content) = other.content() {
                    value["content"] = content.to_json();
                }
                value
            }
        }
    }

    pub fn from_json(value: &Value) -> Option<Self> {
        let kind = value["op"].as_str()?;
        let slot = || value["slot"].as_u64().map(|s| s as usize);
        let content = || Content::from_json(&value["content"]);
        Some(match kind {
            | "set_overlay" => Op::SetOverlay { slot: slot()?, content: content()? },
            | "clear_overlay" => Op::ClearOverlay { slot: slot()? },
            | "write+refresh" => Op::WriteRefresh { slot: slot()?, content: content()? },
            | "fault:same-size-same-mtime-write+refresh" => Op::StampedWriteRefresh { slot: slot()?, content: content()? },
            | "delete+refresh" => Op::DeleteRefresh { slot: slot()? },
            | "fault:directory+refresh" => Op::FaultDirectory { slot: slot()? },
            | "fault:garbage+refresh" => Op::FaultGarbage { slot: slot()? },
            | "fault:silent-write" => Op::SilentWrite { slot: slot()?, content: content()? },
            | "fault:silent-delete" => Op::SilentDelete { slot: slot()? },
            | "refresh" => Op::Refresh { slot: slot()? },
            | "evict" => Op::Evict,
            | "ask" => Op::Ask {
                root: value["root"].as_u64()? as usize,
                query: Query::parse(value["query"].as_str()?)?,
            },
            | "ask-snapshot" => Op::AskSnapshot {
                root: value["root"].as_u64()? as usize,
                query: Query::parse(value["query"].as_str()?)?,
            },
            | _ => return None,
        })
    }

    /// May this operation be executed in `model` without asking more than C15/C09 state?
    ///
    /// * operations that make disk and session view diverge (silent changes, faulty
    ///   states) need a slot whose view is certain;
    /// * pinned slots (symlink targets) keep a regular file for the whole run;
    /// * `refresh` of a `Maybe` slot is fine only while disk == believed state, which the
    ///   `Maybe` invariant guarantees.
    pub fn allowed(&self, model: &Model) -> bool {
        match self {
            | Op::SetOverlay { .. } | Op::ClearOverlay { .. } | Op::Evict | Op::Ask { .. } | Op::AskSnapshot { .. } => {
                true
            }
            | Op::WriteRefresh { .. } | Op::Refresh { .. } => true,
            // only meaningful over an existing regular file of exactly the same length
            | Op::StampedWriteRefresh { slot, content } => match &model.slots[*slot].disk {
                | Disk::File(old) => {
                    old.imports.is_empty()
                        && content.imports.is_empty()
                        && old.template.len() == content.template.len()
                        && old.template != content.template
                }
                | _ => false,
            },
            | Op::DeleteRefresh { slot } => !model.pinned(*slot),
            // `g/` exists exactly while `g/h.zy` does, and a path's identity depends on which
            // of its ancestors exist: disk and view of that slot must never diverge
            | Op::FaultDirectory { slot } | Op::FaultGarbage { slot } | Op::SilentWrite { slot, .. } | Op::SilentDelete { slot }
                if *slot == SLOT_H && !matches!(model.slots[*slot].status, Status::Never) =>
            {
                false
            }
            | Op::FaultDirectory { slot } | Op::FaultGarbage { slot } => model.certain(*slot) && !model.pinned(*slot),
            | Op::SilentWrite { slot, .. } => model.certain(*slot),
            | Op::SilentDelete { slot } => model.certain(*slot) && !model.pinned(*slot),
        }
    }
}

/// What a successful `read_to_string` of the slot would see right now.
fn disk_text(model: &Model, slot: usize) -> Option<Content> {
    model.slots[slot].disk.readable().cloned()
}

/// The expected result of the `refresh_disk` call that follows a disk change.
#[derive(Clone, Copy, Debug, PartialEq, Eq)]
pub enum RefreshExpect {
    Ok,
    /// unreadable (EISDIR / InvalidData): `Err(Read)` and the view stays as it was
    ReadError,
}

/// Update the model for a mutating operation (disk effects are applied to the real
/// directory by the caller).  Returns what `refresh_disk` must answer, if it is called.
pub fn apply_to_model(model: &mut Model, op: &Op) -> Option<RefreshExpect> {
    model.version += 1;
    match op {
        | Op::SetOverlay { slot, content } => {
            let entry = &mut model.slots[*slot];
            if !matches!(entry.status, Status::Touched(_) | Status::Unreadable) {
                // first sight through set_overlay: reads the disk with `.ok()`
                entry.status = Status::Touched(entry.disk.readable().cloned());
            }
            entry.overlay = Some(content.clone());
            None
        }
        | Op::ClearOverlay { slot } => {
            let text = disk_text(model, *slot);
            let entry = &mut model.slots[*slot];
            match entry.status {
                | Status::Touched(_) | Status::Unreadable => {
                    entry.status = Status::Touched(text);
                    entry.overlay = None;
                }
                // not (certainly) in the table: nothing to clear, nothing to read; a `Maybe`
                // slot holds no overlay and its disk already is what the session believes
                | Status::Never | Status::Maybe => {}
            }
            None
        }
        | Op::WriteRefresh { slot, content } | Op::StampedWriteRefresh { slot, content } => {
            model.slots[*slot].disk = Disk::File(content.clone());
            model.slots[*slot].status = Status::Touched(Some(content.clone()));
            Some(RefreshExpect::Ok)
        }
        | Op::DeleteRefresh { slot } => {
            model.slots[*slot].disk = Disk::Absent;
            model.slots[*slot].status = Status::Touched(None);
            Some(RefreshExpect::Ok)
        }
        | Op::FaultDirectory { slot } | Op::FaultGarbage { slot } => {
            model.slots[*slot].disk =
                if matches!(op, Op::FaultDirectory { .. }) { Disk::Directory } else { Disk::Garbage };
            // precondition: certain.  Touched -> the view stays; Never -> the failed first read
            // registers the path as an unreadable input.
            if matches!(model.slots[*slot].status, Status::Never) {
                model.slots[*slot].status = Status::Unreadable;
            }
            Some(RefreshExpect::ReadError)
        }
        | Op::SilentWrite { slot, content } => {
            model.slots[*slot].disk = Disk::File(content.clone());
            None
        }
        | Op::SilentDelete { slot } => {
            model.slots[*slot].disk = Disk::Absent;
            None
        }
        | Op::Refresh { slot } => {
            let entry = &mut model.slots[*slot];
            match &entry.disk {
                | Disk::File(content) => {
                    entry.status = Status::Touched(Some(content.clone()));
                    Some(RefreshExpect::Ok)
                }
                | Disk::Absent => {
                    entry.status = Status::Touched(None);
                    Some(RefreshExpect::Ok)
                }
                | Disk::Directory | Disk::Garbage => {
                    if matches!(entry.status, Status::Never | Status::Maybe) {
                        entry.status = Status::Unreadable;
                    }
                    Some(RefreshExpect::ReadError)
                }
            }
        }
        | Op::Evict | Op::Ask { .. } | Op::AskSnapshot { .. } => {
            model.version -= 1;
            None
        }
    }
}
