//! Seeded generation of histories (swarm style: every run draws its own sizes, slot
//! subset, operation mix, variant palette and fault mix).

use crate::content::{self, Palette, Spelling};
use crate::ops::{Op, Query, apply_to_model};
use crate::run::Config;
use crate::world::{Model, SLOT_A, SLOT_A_SIG, SLOT_B, SLOT_B_SIG, SLOT_E, SLOT_INPUT, SLOT_MAIN, SLOT_ROOT, SLOTS, Status};
use zysim_common::Rng;

pub struct Generated {
    pub config: Config,
    pub ops: Vec<Op>,
}

/// `focus`: "C15" favours edit histories, "C09" favours graph shapes and spellings.
pub fn history(seed: u64, focus: &str, faults: bool, thorough: bool) -> Generated {
    let mut rng = Rng::new(seed);
    let graph_focus = focus == "C09";
    let config = Config {
        symlinks: rng.chance(if graph_focus { 1 } else { 1 }, if graph_focus { 2 } else { 4 }),
        faults,
        inline: graph_focus && rng.chance(1, 2),
    };
    let allow_exec = rng.chance(1, if thorough { 3 } else { 5 });
    // active slots
    let mut active: Vec<usize> = vec![SLOT_ROOT];
    let mut others: Vec<usize> = (1..SLOTS.len()).collect();
    rng.shuffle(&mut others);
    let extra = rng.range(1, if graph_focus { 6 } else { 5 });
    active.extend(others.into_iter().take(extra));
    if config.symlinks {
        for slot in [SLOT_A, SLOT_E, SLOT_B_SIG] {
            if !active.contains(&slot) {
                active.push(slot);
            }
        }
    }
    // a companion slot is only interesting with its implementation
    if active.contains(&SLOT_A_SIG) && !active.contains(&SLOT_A) {
        active.push(SLOT_A);
    }
    if active.contains(&SLOT_B_SIG) && !active.contains(&SLOT_B) {
        active.push(SLOT_B);
    }
    // roots
    let mut roots = vec![SLOT_ROOT];
    let mut candidates: Vec<usize> = active.iter().copied().filter(|s| *s != SLOT_ROOT && *s != SLOT_INPUT).collect();
    rng.shuffle(&mut candidates);
    let more_roots = rng.below(3);
    roots.extend(candidates.into_iter().take(more_roots));
    if active.contains(&SLOT_MAIN) && !roots.contains(&SLOT_MAIN) && rng.chance(1, 2) {
        roots.push(SLOT_MAIN);
    }
    // history length: short favoured
    let length = match rng.below(10) {
        | 0..=4 => rng.range(3, 8),
        | 5..=7 => rng.range(8, 14),
        | _ => rng.range(14, if thorough { 40 } else { 25 }),
    };
    // operation mix (swarm: some kinds disabled per run)
    let mut weight = |base: usize, keep_num: usize, keep_den: usize| if rng.chance(keep_num, keep_den) { base } else { 0 };
    let w_set_overlay = weight(10, 9, 10);
    let w_clear_overlay = weight(5, 8, 10);
    let w_write = weight(8, 8, 10);
    let w_delete = weight(4, 7, 10);
    let w_refresh = weight(2, 5, 10);
    let w_evict = weight(3, 6, 10);
    let w_snapshot = weight(6, 6, 10);
    let (w_dir, w_garbage, w_silent_write, w_silent_delete) = if faults {
        (weight(3, 7, 10), weight(3, 7, 10), weight(4, 7, 10), weight(2, 6, 10))
    } else {
        (0, 0, 0, 0)
    };
    let w_ask = 22;
    let mut queries: Vec<Query> = if graph_focus {
        vec![Query::Graph, Query::Analyze, Query::Graph, Query::Analyze, Query::Execute]
    } else {
        let mut all: Vec<Query> = Query::ALL.to_vec();
        all.push(Query::Analyze);
        all.push(Query::Analyze);
        all.push(Query::Graph);
        all.push(Query::Execute);
        all.push(Query::ExecuteHeld);
        all.retain(|q| matches!(q, Query::Analyze) || rng.chance(7, 10));
        all
    };
    if queries.is_empty() {
        queries.push(Query::Analyze);
    }
    let palette_slots: Vec<usize> = active.clone();
    let mut model = Model::new(config.symlinks);
    model.pin(); // mirrors Executor::execute
    let mut ops: Vec<Op> = Vec::new();
    let palette = Palette { slots: &palette_slots, symlinks: config.symlinks, allow_exec, allow_missing: true };

    // initial population of the disk, before the session ever looks
    for slot in active.iter().copied() {
        if slot == SLOT_INPUT {
            continue; // numbered inputs are overlay-only
        }
        if rng.chance(2, 3) && !model.pinned(slot) {
            let content = content::generate(&mut rng, slot, &palette);
            push(&mut ops, &mut model, Op::SilentWrite { slot, content });
        }
    }

    let mut guard = 0;
    let mut follow_up: Option<Op> = None;
    while ops.len() < length + active.len() && guard < 400 {
        guard += 1;
        let op = if let Some(op) = follow_up.take() {
            op
        } else {
            let kind = rng.weighted(&[
                w_set_overlay, w_clear_overlay, w_write, w_delete, w_refresh, w_evict, w_snapshot, w_dir, w_garbage,
                w_silent_write, w_silent_delete, w_ask, 2,
            ]);
            let slot = *rng.pick(&active);
            match kind {
                | 0 => Op::SetOverlay { slot, content: content::generate(&mut rng, slot, &palette) },
                | 1 => {
                    // prefer slots that have an overlay
                    let with_overlay: Vec<usize> =
                        active.iter().copied().filter(|s| model.slots[*s].overlay.is_some()).collect();
                    let slot = if !with_overlay.is_empty() && rng.chance(3, 4) { *rng.pick(&with_overlay) } else { slot };
                    Op::ClearOverlay { slot }
                }
                | 2 if slot != SLOT_INPUT => Op::WriteRefresh { slot, content: content::generate(&mut rng, slot, &palette) },
                | 3 if slot != SLOT_INPUT => Op::DeleteRefresh { slot },
                | 4 => Op::Refresh { slot },
                | 5 => Op::Evict,
                | 6 => Op::AskSnapshot { root: *rng.pick(&roots), query: rng.pick(&queries).clone() },
                | 7 if slot != SLOT_INPUT => Op::FaultDirectory { slot },
                | 8 if slot != SLOT_INPUT => Op::FaultGarbage { slot },
                | 9 if slot != SLOT_INPUT && rng.chance(1, 3) => {
                    // a same-size rewrite that keeps the modification time
                    match &model.slots[slot].disk {
                        // only plain `NN` / `ret NN` literals: changing a digit there changes the value
                        // and nothing else (a digit of `i64` would change the class of the content)
                        | crate::world::Disk::File(old)
                            if old.imports.is_empty()
                                && (old.name.starts_with("int") || old.name.starts_with("ret"))
                                && old.template.trim_start_matches("ret ").chars().all(|c| c.is_ascii_digit()) =>
                        {
                            let mut text: Vec<char> = old.template.chars().collect();
                            let digits: Vec<usize> =
                                text.iter().enumerate().filter(|(_, c)| c.is_ascii_digit()).map(|(i, _)| i).collect();
                            if digits.is_empty() {
                                Op::Refresh { slot }
                            } else {
                                let at = *rng.pick(&digits);
                                let old_digit = text[at].to_digit(10).unwrap();
                                let new_digit = (old_digit + 1 + rng.below(8) as u32) % 10;
                                text[at] = char::from_digit(if new_digit == 0 && at == digits[0] { 7 } else { new_digit }, 10).unwrap();
                                let template: String = text.into_iter().collect();
                                let mut content = old.clone();
                                content.name = format!("{}~", old.name.trim_end_matches('~'));
                                content.template = template;
                                Op::StampedWriteRefresh { slot, content }
                            }
                        }
                        | _ => Op::Refresh { slot },
                    }
                }
                | 9 if slot != SLOT_INPUT => Op::SilentWrite { slot, content: content::generate(&mut rng, slot, &palette) },
                | 10 if slot != SLOT_INPUT => Op::SilentDelete { slot },
                | 12 => {
                    // plant a cycle: two or three files importing each other (possibly through a companion)
                    let mut ring: Vec<usize> = active.iter().copied().filter(|s| *s != SLOT_INPUT).collect();
                    rng.shuffle(&mut ring);
                    ring.truncate(rng.range(1, 3).min(ring.len()));
                    for index in 0..ring.len() {
                        let from = ring[index];
                        let to = ring[(index + 1) % ring.len()];
                        let spelling = if rng.chance(1, 2) { Spelling::Plain } else { Spelling::Dot };
                        let content = content::importing(&[(to, spelling)]);
                        let op = if rng.chance(1, 2) || from == SLOT_INPUT {
                            Op::SetOverlay { slot: from, content }
                        } else {
                            Op::WriteRefresh { slot: from, content }
                        };
                        push(&mut ops, &mut model, op);
                    }
                    Op::Ask { root: ring[0], query: Query::Graph }
                }
                | _ => Op::Ask { root: *rng.pick(&roots), query: rng.pick(&queries).clone() },
            }
        };
        if !op.allowed(&model) {
            continue;
        }
        // a consumer of generative definitions usually gets the matching provider behind its import
        if follow_up.is_none() {
            if let Op::SetOverlay { slot, content } | Op::WriteRefresh { slot, content } | Op::SilentWrite { slot, content } = &op {
                if content.name.starts_with("gen-consumer") {
                    let target = content.imports[0].slot;
                    if target < SLOTS.len()
                        && target != *slot
                        && target != SLOT_INPUT
                        && !SLOTS[target].ends_with(".zyi")
                        && active.contains(&target)
                        && rng.chance(3, 4)
                    {
                        let provider = content::generative_provider(rng.range(2, 97));
                        follow_up = Some(if rng.chance(1, 2) {
                            Op::SetOverlay { slot: target, content: provider }
                        } else {
                            Op::WriteRefresh { slot: target, content: provider }
                        });
                    }
                }
            }
        }
        // contextual follow-ups: put the next edit where in-flight state was just created
        if follow_up.is_none() && rng.chance(1, 3) {
            follow_up = match &op {
                | Op::Ask { root, .. } | Op::AskSnapshot { root, .. } => {
                    // a companion that was just probed as absent appears; or a provider changes
                    let companion = model.companion_of(*root).filter(|c| active.contains(c));
                    let provider = imported_by(&model, *root).into_iter().find(|s| active.contains(s));
                    match (companion, provider, rng.below(3)) {
                        | (Some(companion), _, 0) => Some(Op::SetOverlay {
                            slot: companion,
                            content: content::generate(&mut rng, companion, &palette),
                        }),
                        | (_, Some(provider), _) if provider != SLOT_INPUT => Some(if rng.chance(1, 2) {
                            Op::WriteRefresh { slot: provider, content: content::generate(&mut rng, provider, &palette) }
                        } else {
                            Op::SetOverlay { slot: provider, content: content::generate(&mut rng, provider, &palette) }
                        }),
                        | _ => None,
                    }
                }
                | Op::Evict => Some(Op::Ask {
                    root: *rng.pick(&roots),
                    query: rng
                        .pick(&[
                            Query::Execute, Query::MaterializeArena, Query::Facts, Query::CheckedProgram, Query::ExecuteHeld,
                            Query::MaterializeArenaHeld, Query::CheckedProgramHeld,
                        ])
                        .clone(),
                }),
                | Op::SetOverlay { slot, .. } | Op::WriteRefresh { slot, .. } | Op::DeleteRefresh { slot } | Op::ClearOverlay { slot } => {
                    // ask a root that can see the change
                    let _ = slot;
                    Some(Op::Ask { root: *rng.pick(&roots), query: rng.pick(&queries).clone() })
                }
                | _ => None,
            };
        }
        push(&mut ops, &mut model, op);
    }
    // always end with a query on every root so the last edits are observed
    for root in roots.iter().copied() {
        push(&mut ops, &mut model, Op::Ask { root, query: Query::Analyze });
    }
    Generated { config, ops }
}

fn imported_by(model: &Model, slot: usize) -> Vec<usize> {
    match model.effective(slot) {
        | crate::world::Effective::Text(content) => {
            content.imports.iter().map(|i| i.slot).filter(|s| *s < SLOTS.len()).collect()
        }
        | _ => vec![],
    }
}

fn push(ops: &mut Vec<Op>, model: &mut Model, op: Op) {
    if !op.allowed(model) {
        return;
    }
    match &op {
        | Op::Ask { root, .. } | Op::AskSnapshot { root, .. } => {
            model.name(*root);
            model.after_query();
        }
        | Op::Evict => {}
        | mutating => {
            let slot = mutating.slot().unwrap();
            apply_to_model(model, mutating);
            if !matches!(mutating, Op::SilentWrite { .. } | Op::SilentDelete { .. }) {
                model.name(slot);
            }
        }
    }
    let _ = Status::Never;
    ops.push(op);
}


/// The enumerated graph family of C09: every edge set (self-imports included) over a fixed
/// small file set, one fault-free history per graph: write the files, then ask for the graph
/// of every file and analyse the first.  `files` = 3: {root.zy, a.zy, a.zyi} (512 graphs),
/// `files` = 4: {root.zy, a.zy, b.zy, a.zyi} (65 536 graphs); `a.zyi`, when it has content,
/// adds the signature edge a.zy -> a.zyi by itself.  Spellings are drawn from `seed`.
pub fn enumerated(files: usize, mask: u64, seed: u64) -> Generated {
    use crate::world::{SLOT_A, SLOT_A_SIG, SLOT_B, SLOT_ROOT};
    let mut rng = Rng::new(seed);
    let set: Vec<usize> =
        if files == 3 { vec![SLOT_ROOT, SLOT_A, SLOT_A_SIG] } else { vec![SLOT_ROOT, SLOT_A, SLOT_B, SLOT_A_SIG] };
    let config = Config { symlinks: false, faults: false, inline: true };
    let mut ops = Vec::new();
    for (i, from) in set.iter().enumerate() {
        let mut targets = Vec::new();
        for (j, to) in set.iter().enumerate() {
            if mask >> (i * set.len() + j) & 1 == 1 {
                let spelling = rng
                    .pick(&[Spelling::Plain, Spelling::Dot, Spelling::DotDot, Spelling::Absolute, Spelling::AbsoluteDotDot])
                    .clone();
                targets.push((*to, spelling));
            }
        }
        // the companion exists iff it imports something or the top bit pattern asks for it:
        // an edge-less a.zyi is present in half of the graphs (decided by the seed)
        if *from == SLOT_A_SIG && targets.is_empty() && rng.chance(1, 2) {
            continue;
        }
        ops.push(Op::SilentWrite { slot: *from, content: content::importing_all(&targets) });
    }
    for root in &set {
        ops.push(Op::Ask { root: *root, query: Query::Graph });
    }
    ops.push(Op::Ask { root: SLOT_ROOT, query: Query::Analyze });
    Generated { config, ops }
}
