//! The simulated world: a real scratch directory (so the real `std::fs` code runs), the
//! model of what the session has been told, and the mirror world a fresh session sees.

use crate::content::Content;
use std::path::{Path, PathBuf};
use zysim_common::{Value, json};

/// File slots, relative to the world directory `w/`.
pub const SLOTS: [&str; 11] = [
    "root.zy",
    "a.zy",
    "b.zy",
    "c.zy",
    "a.zyi",
    "b.zyi",
    "main.zydeco",
    "d/e.zy",
    ".zydeco-input-1",
    // a file in a directory that exists only while the file does: its identity is
    // computed with two missing components when it is looked up before it exists
    "g/h.zy",
    // differs from `a.zy` only in letter case (the scratch file system is case sensitive)
    "A.zy",
];
pub const SLOT_ROOT: usize = 0;
pub const SLOT_A: usize = 1;
pub const SLOT_B: usize = 2;
pub const SLOT_C: usize = 3;
pub const SLOT_A_SIG: usize = 4;
pub const SLOT_B_SIG: usize = 5;
pub const SLOT_MAIN: usize = 6;
pub const SLOT_E: usize = 7;
pub const SLOT_INPUT: usize = 8;
pub const SLOT_H: usize = 9;
pub const SLOT_UPPER_A: usize = 10;
pub const MISSING: usize = 99; // an import of a file that never exists
/// an import whose file name is longer than NAME_MAX (ENAMETOOLONG, not "not found")
pub const MISSING_TOO_LONG: usize = 98;
/// an import of `loop.zy`, a symbolic link to itself (ELOOP); exists in every world
pub const MISSING_LOOP: usize = 97;

/// Import targets that can never be loaded.
pub fn never_loads(slot: usize) -> bool {
    slot == MISSING || slot == MISSING_TOO_LONG || slot == MISSING_LOOP
}

/// `.zy` implementation -> adjacent `.zyi` slot, where that slot exists in the world.
/// With the static symlinks, `c.zyi` and `d/e.zyi` are links to `b.zyi`.
pub fn companion_of(slot: usize, symlinks: bool) -> Option<usize> {
    match slot {
        | SLOT_A => Some(SLOT_A_SIG),
        | SLOT_B => Some(SLOT_B_SIG),
        | SLOT_C | SLOT_E if symlinks => Some(SLOT_B_SIG),
        | _ => None,
    }
}

pub fn implementation_of(slot: usize) -> Option<usize> {
    match slot {
        | SLOT_A_SIG => Some(SLOT_A),
        | SLOT_B_SIG => Some(SLOT_B),
        | _ => None,
    }
}

pub fn in_subdirectory(slot: usize) -> bool {
    slot == SLOT_E || slot == SLOT_H
}

/// The sub-directory a slot lives in (`""` for the world directory itself).
pub fn directory_of(slot: usize) -> &'static str {
    match slot {
        | SLOT_E => "d",
        | SLOT_H => "g",
        | _ => "",
    }
}

/// What is really on disk at a slot.
#[derive(Clone, Debug, PartialEq, Eq)]
pub enum Disk {
    Absent,
    /// A regular file holding this content (rendered per side).
    File(Content),
    /// The path is a directory (reads fail with EISDIR).
    Directory,
    /// A regular file holding bytes that are not UTF-8 (reads fail with InvalidData).
    Garbage,
}

impl Disk {
    pub fn readable(&self) -> Option<&Content> {
        match self {
            | Disk::File(content) => Some(content),
            | _ => None,
        }
    }
    pub fn is_faulty(&self) -> bool {
        matches!(self, Disk::Directory | Disk::Garbage)
    }
    pub fn label(&self) -> &'static str {
        match self {
            | Disk::Absent => "absent",
            | Disk::File(_) => "file",
            | Disk::Directory => "directory",
            | Disk::Garbage => "garbage",
        }
    }
}

/// What the simulator knows about the session's knowledge of a slot.
#[derive(Clone, Debug, PartialEq, Eq)]
pub enum Status {
    /// Never named by any operation, installed import or companion relation: certainly
    /// not in the session's input table.
    Never,
    /// May or may not have been looked up lazily inside a query.  Invariant kept by the
    /// generator's preconditions: the disk state is what the session believes either way.
    Maybe,
    /// Certainly in the input table, with this disk view (`None` = no readable text).
    Touched(Option<Content>),
    /// Certainly in the input table as an unreadable file (the read failed with something
    /// other than "not found" when the session first looked, and nothing re-read it since).
    Unreadable,
}

#[derive(Clone, Debug, PartialEq, Eq)]
pub struct SlotModel {
    pub disk: Disk,
    pub overlay: Option<Content>,
    pub status: Status,
}

#[derive(Clone, Debug)]
pub struct Model {
    pub slots: Vec<SlotModel>,
    /// Static configuration: the symlinks `l.zy -> a.zy` and `dl -> d` exist.
    pub symlinks: bool,
    pub version: u64,
}

impl Model {
    pub fn new(symlinks: bool) -> Self {
        Self {
            slots: (0..SLOTS.len())
                .map(|_| SlotModel { disk: Disk::Absent, overlay: None, status: Status::Never })
                .collect(),
            symlinks,
            version: 0,
        }
    }

    /// The content the session believes a slot has (`None` = no text).
    /// For `Maybe`/`Never` slots this is the disk state (see [`Status::Maybe`]).
    pub fn effective(&self, slot: usize) -> Effective {
        let entry = &self.slots[slot];
        if let Some(overlay) = &entry.overlay {
            return Effective::Text(overlay.clone());
        }
        match &entry.status {
            | Status::Touched(Some(view)) => Effective::Text(view.clone()),
            | Status::Touched(None) => Effective::Absent,
            | Status::Unreadable => Effective::Unreadable,
            | Status::Never | Status::Maybe => match &entry.disk {
                | Disk::File(content) => Effective::Text(content.clone()),
                | Disk::Absent => Effective::Absent,
                | Disk::Directory | Disk::Garbage => Effective::Unreadable,
            },
        }
    }

    /// Pinned slots keep a regular file on disk for the whole run (symlink targets).
    pub fn pinned(&self, slot: usize) -> bool {
        self.symlinks && (slot == SLOT_A || slot == SLOT_E || slot == SLOT_B_SIG)
    }

    pub fn companion_of(&self, slot: usize) -> Option<usize> {
        companion_of(slot, self.symlinks)
    }

    /// The initial contents of the pinned slots (mirrored by the generator and the executor).
    pub fn pin(&mut self) {
        if self.symlinks {
            for slot in [SLOT_A, SLOT_E] {
                self.slots[slot].disk = Disk::File(Content::plain("int1", "1", crate::content::Class::Closed));
            }
            self.slots[SLOT_B_SIG].disk =
                Disk::File(Content::plain("sig-i64", "@[intrinsic(i64)] _", crate::content::Class::Signature));
        }
    }

    /// A slot whose session view is known for certain.
    pub fn certain(&self, slot: usize) -> bool {
        !matches!(self.slots[slot].status, Status::Maybe)
    }

    /// Mark everything reachable by name as possibly looked up (called after a query).
    pub fn after_query(&mut self) {
        // Which slots are named?  A query names its root (done by the caller through
        // `name`); installed contents name their imports; an implementation names its
        // companion.  Propagate to a fixed point over what the session may traverse.
        loop {
            let mut changed = false;
            for slot in 0..self.slots.len() {
                if matches!(self.slots[slot].status, Status::Never) {
                    continue;
                }
                let mut named: Vec<usize> = Vec::new();
                if let Some(companion) = companion_of(slot, self.symlinks) {
                    named.push(companion);
                }
                // every content the session may hold for this slot
                let mut contents: Vec<&Content> = Vec::new();
                if let Some(overlay) = &self.slots[slot].overlay {
                    contents.push(overlay);
                }
                if let Status::Touched(Some(view)) = &self.slots[slot].status {
                    contents.push(view);
                }
                if let Disk::File(content) = &self.slots[slot].disk {
                    contents.push(content);
                }
                for content in contents {
                    for import in &content.imports {
                        if import.slot < SLOTS.len() {
                            named.push(import.slot);
                        }
                    }
                }
                for target in named {
                    if matches!(self.slots[target].status, Status::Never) {
                        self.slots[target].status = Status::Maybe;
                        changed = true;
                    }
                }
            }
            if !changed {
                break;
            }
        }
    }

    /// An operation or query names this slot directly.
    pub fn name(&mut self, slot: usize) {
        if matches!(self.slots[slot].status, Status::Never) {
            self.slots[slot].status = Status::Maybe;
        }
    }

    pub fn to_json(&self) -> Value {
        json!(
            self.slots
                .iter()
                .enumerate()
                .map(|(slot, entry)| json!({
                    "slot": SLOTS[slot],
                    "disk": entry.disk.label(),
                    "overlay": entry.overlay.as_ref().map(|c| c.name.clone()),
                    "status": match &entry.status {
                        | Status::Never => "never".to_string(),
                        | Status::Maybe => "maybe".to_string(),
                        | Status::Touched(Some(view)) => format!("touched({})", view.name),
                        | Status::Touched(None) => "touched(none)".to_string(),
                        | Status::Unreadable => "unreadable".to_string(),
                    },
                }))
                .collect::<Vec<_>>()
        )
    }

    /// Abstract state hash (distinctness measure).
    pub fn abstract_hash(&self) -> u64 {
        let text = self
            .slots
            .iter()
            .map(|entry| {
                format!(
                    "{}|{}|{}",
                    match &entry.disk {
                        | Disk::File(content) => content.name.clone(),
                        | other => other.label().to_string(),
                    },
                    entry.overlay.as_ref().map(|c| c.name.as_str()).unwrap_or("-"),
                    match &entry.status {
                        | Status::Never => "n".to_string(),
                        | Status::Maybe => "m".to_string(),
                        | Status::Touched(Some(view)) => format!("t{}", view.name),
                        | Status::Touched(None) => "t-".to_string(),
                        | Status::Unreadable => "u".to_string(),
                    }
                )
            })
            .collect::<Vec<_>>()
            .join(";");
        zysim_common::fnv1a(text.as_bytes())
    }
}

#[derive(Clone, Debug, PartialEq, Eq)]
pub enum Effective {
    Text(Content),
    Absent,
    /// The path exists but cannot be read as text (directory, invalid UTF-8).
    Unreadable,
}

/// One side of a run: `<run>/s/w` (the long-lived session's disk) or `<run>/f/w`
/// (the mirror a fresh session sees).  The two prefixes have equal length.
#[derive(Clone, Debug)]
pub struct Side {
    pub root: PathBuf,
}

impl Side {
    pub fn new(run: &Path, letter: &str) -> Self {
        Self { root: run.join(letter).join("w") }
    }

    pub fn path(&self, slot: usize) -> PathBuf {
        self.root.join(SLOTS[slot])
    }

    pub fn prefix(&self) -> String {
        self.root.to_string_lossy().into_owned()
    }

    /// Create the directory skeleton and the static symlinks.
    pub fn create(&self, symlinks: bool) -> std::io::Result<()> {
        let _ = std::fs::remove_dir_all(&self.root);
        std::fs::create_dir_all(self.root.join("d"))?;
        std::os::unix::fs::symlink("loop.zy", self.root.join("loop.zy"))?;
        if symlinks {
            std::os::unix::fs::symlink("a.zy", self.root.join("l.zy"))?;
            std::os::unix::fs::symlink("a.zy", self.root.join("7"))?;
            std::os::unix::fs::symlink("d", self.root.join("dl"))?;
            // companions that are links to a signature elsewhere
            std::os::unix::fs::symlink("b.zyi", self.root.join("c.zyi"))?;
            std::os::unix::fs::symlink("../b.zyi", self.root.join("d").join("e.zyi"))?;
        }
        Ok(())
    }

    fn clear(&self, slot: usize) {
        let path = self.path(slot);
        match std::fs::symlink_metadata(&path) {
            | Ok(meta) if meta.is_dir() => {
                let _ = std::fs::remove_dir_all(&path);
            }
            | Ok(_) => {
                let _ = std::fs::remove_file(&path);
            }
            | Err(_) => {}
        }
        if slot == SLOT_H {
            // `g/` exists only while `g/h.zy` does
            let _ = std::fs::remove_dir(self.root.join("g"));
        }
    }

    /// Make the real directory reflect `disk` at `slot`.
    pub fn put(&self, slot: usize, disk: &Disk) {
        self.clear(slot);
        let path = self.path(slot);
        if slot == SLOT_H && !matches!(disk, Disk::Absent) {
            std::fs::create_dir_all(self.root.join("g")).expect("mkdir g");
        }
        match disk {
            | Disk::Absent => {}
            | Disk::File(content) => {
                std::fs::write(&path, content.render(self, slot)).expect("write slot");
            }
            | Disk::Directory => {
                std::fs::create_dir_all(&path).expect("mkdir slot");
            }
            | Disk::Garbage => {
                std::fs::write(&path, [0x31u8, 0xff, 0xfe, 0x80, 0x0a]).expect("write garbage");
            }
        }
    }

    /// Populate this side as the mirror of `model`: `Touched` slots as regular files
    /// holding the view (or absent), other slots in whatever state the real disk is in.
    pub fn mirror(&self, model: &Model) {
        for slot in 0..SLOTS.len() {
            let entry = &model.slots[slot];
            let disk = match &entry.status {
                | Status::Touched(Some(view)) => Disk::File(view.clone()),
                | Status::Touched(None) => Disk::Absent,
                // the session believes "unreadable": any unreadable state will do (OS error
                // texts are not compared in the fault-injecting configuration)
                | Status::Unreadable => {
                    if entry.disk.is_faulty() { entry.disk.clone() } else { Disk::Garbage }
                }
                | Status::Never | Status::Maybe => entry.disk.clone(),
            };
            self.put(slot, &disk);
        }
    }
}
