"""E4 `hostsim` driver — C06, I/O clause only (fault enumeration over simulated devices)."""
import json
import os
import subprocess
import time

from common import (SCRATCH, SHIM, SIM_BIN, WORKERS, HarnessError, fresh_dir, load_known_findings, log, save_replay,
                    tree_fingerprint)

SCRIPTS = {"quick": 96, "thorough": 1600}
MULTI = {"quick": 4000, "thorough": 100000}


def seam_env():
    return {"PATH": "/usr/bin:/bin", "LD_PRELOAD": SHIM, "ZYSIM_HASH_SEED": "1", "RUST_BACKTRACE": "0",
            "NO_COLOR": "1", "HOME": "/nonexistent"}


def run_shards(tier, seed, scripts, multi, directory, workers=WORKERS):
    binary = os.path.join(SIM_BIN, "hostsim")
    procs = []
    for shard in range(workers):
        out = os.path.join(directory, f"host-{shard}.json")
        argv = ["setarch", "-R", binary, "run", "--tier", tier, "--seed", str(seed), "--shard", f"{shard}/{workers}",
                "--scripts", str(scripts), "--multi", str(multi), "--out", out]
        procs.append((out, subprocess.Popen(argv, env=seam_env(), stdout=subprocess.PIPE, stderr=subprocess.STDOUT)))
    records = []
    for out, proc in procs:
        output, _ = proc.communicate()
        if proc.returncode != 0 or not os.path.exists(out):
            raise HarnessError(f"hostsim shard failed ({proc.returncode}): {output.decode('utf8', 'replace')[-3000:]}")
        records.append(json.load(open(out)))
    return records


def match_known(finding, violation):
    signature = finding.get("signature", {})
    if signature.get("engine") != "hostsim" or finding.get("property") != "C06":
        return False
    if violation.get("class") != signature.get("class"):
        return False
    trace = " ; ".join(violation.get("trace", []))
    text = json.dumps(violation.get("violation", {}))
    return (all(fragment in trace for fragment in signature.get("trace_mentions", []))
            and all(fragment in text for fragment in signature.get("violation_mentions", [])))


def replay(path):
    binary = os.path.join(SIM_BIN, "hostsim")
    proc = subprocess.run(["setarch", "-R", binary, "replay", path], env=seam_env())
    return 1 if proc.returncode == 1 else (0 if proc.returncode == 0 else 2)


def replay_quiet(path):
    binary = os.path.join(SIM_BIN, "hostsim")
    return subprocess.run(["setarch", "-R", binary, "replay", path], env=seam_env(), stdout=subprocess.DEVNULL,
                          stderr=subprocess.DEVNULL).returncode


def run(tier, seed):
    started = time.time()
    directory = fresh_dir(os.path.join(SCRATCH, "hostsim"))
    scripts = int(os.environ.get("VERIF_RUNS", SCRIPTS[tier]))
    multi = int(os.environ.get("VERIF_MULTI", MULTI[tier]))
    records = run_shards(tier, seed, scripts, multi, directory)
    findings = [f for f in load_known_findings() if f.get("status") == "known"]
    violations, known_lines, known_seen, unminimised = [], [], set(), 0
    for record in records:
        for violation in record["violations"]:
            if violation.get("unminimised"):
                unminimised += 1
                continue
            listed = next((f for f in findings if match_known(f, violation)), None)
            if listed:
                if listed["id"] not in known_seen:
                    known_seen.add(listed["id"])
                    known_lines.append(f"{listed['id']}: {listed['what']}")
                continue
            violation["tree"] = tree_fingerprint()
            path = save_replay("C06", "host", violation)
            code = replay_quiet(path)
            if code != 1:
                raise HarnessError(f"hostsim violation did not replay identically (exit {code}): {path}")
            detail = violation["violation"]
            violations.append((path, f"[{violation['class']}] {detail.get('message')} | script: {' ; '.join(violation.get('trace', []))} | "
                                     f"plan: {json.dumps(violation.get('plan'))} | expected {detail.get('expected')} | actual {detail.get('actual')}"))
    violations = violations[:8]
    wall = time.time() - started

    def merged(key):
        out = {}
        for r in records:
            for k, v in r[key].items():
                out[k] = out.get(k, 0) + v
        return dict(sorted(out.items()))

    distinct = set(d for r in records for d in r["distinct"])
    evaluations = sum(r["evaluations"] for r in records)
    coverage = {
        "evaluations": evaluations,
        "distinct_nontrivial": len(distinct),
        "rule": "one evaluation = one generated I/O script compiled to a Zydeco program and run by the real interpreter against "
                "simulated stdin/stdout under one fault plan, in its own forked process; distinct = hash of (script, sequence of "
                "continuations taken); every script has >= 2 host operations",
        "samples": [s for r in records for s in r["samples"]][:3],
        "enumerated_scripts": sum(r["enumerated_scripts"] for r in records),
        "single_fault_plans_enumerated": sum(r["single_fault_plans"] for r in records),
        "exhaustive": False,
        "enumeration": "for every enumerated script (<= 6 operations): every byte offset of its stdin x {interrupted, 4 hard-once kinds, "
                       "2 hard-forever kinds, early EOF} and every byte offset of its fault-free stdout x {interrupted, zero-length write, "
                       "3 hard-once kinds, hard-forever, flush failing from here}, three short-transfer sizes, every byte offset of every opened "
                       "input file x {EINTR, EIO once, EACCES for ever} and every byte offset of every written output file x {EINTR, EIO once, "
                       "EPIPE once, ENOSPC for ever} (real read(2)/write(2) through the armed shim); the script sample itself is seeded",
        "multi_fault_scripts": multi,
        "fault_kinds_fired": merged("fault_kinds_fired"),
        "continuations_taken": merged("continuations_taken"),
        "legacy_panics_predicted_and_observed": sum(r["legacy_panics_predicted_and_observed"] for r in records),
        "logical_steps": sum(r["logical_steps"] for r in records),
        "violations_beyond_minimisation_cap": unminimised,
        "known_findings_observed": sorted(known_seen),
        "not_decided_here": "the three pure clauses of C06 (arity/type for all argument values, scalar-indexed text operations, rejection of a mis-attached role)",
        "simulated_time": "none (no clock in the code under test); logical steps = host operations executed",
        "runs_per_hour": int(evaluations / max(wall, 1e-6) * 3600),
        "components": {
            "real": ["checker + BuiltinRootLinker + dynamics Runtime::run, impls.rs, host.rs, lib/std/builtin/**", "real files in a tmpfs scratch directory, /dev/full, /dev/null, a directory, a missing directory"],
            "stub": ["stdin: BufReader over a simulated device", "stdout/stderr: simulated device",
                     "read(2)/write(2) of the named scratch files: interposed by the armed zysim shim", "getrandom (zysim seam)"],
        },
    }
    assumptions = [
        "faults sit at byte offsets of the stream, so the verdict does not depend on how the host sizes its buffers",
        "real files are fault-injected through the armed zysim shim (read/write interposition at byte offsets of named scratch files: EINTR, EIO, EACCES, EPIPE, ENOSPC) and through special paths",
        "the only permitted panics are the two documented legacy `expect`s of the stdio/write*/read* operations",
    ]
    return coverage, assumptions, violations, known_lines, wall
