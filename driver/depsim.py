"""C08 — dependency order, not position.  Two levels, both under the entropy seam:

(a) graph level: `graphsim` shards (zydeco_utils::graph against reference SCCs, every
    case on a fresh thread whose hash keys come from the seam);
(b) language level (`blocksim`): generated `begin ... end` programs realising a known
    reference graph, run through the real `zydeco` binary in every / sampled
    permutation of their contributions under several hash keys.
"""
import concurrent.futures
import hashlib
import json
import os
import subprocess
import time

import blockgen
from common import (REPO, SCRATCH, SHIM, SIM_BIN, WORKERS, ZYDECO, HarnessError, Rng, fresh_dir, load_known_findings,
                    log, mix, run_under_seam, save_replay, tree_fingerprint)

ENGINE = 8


# ------------------------------------------------------------------ (a) graph level
def run_graph_shards(tier, seed, directory):
    binary = os.path.join(SIM_BIN, "graphsim")
    env = {"PATH": "/usr/bin:/bin", "LD_PRELOAD": SHIM, "ZYSIM_HASH_SEED": "1", "RUST_BACKTRACE": "0"}
    procs = []
    for shard in range(WORKERS):
        out = os.path.join(directory, f"graph-{shard}.json")
        procs.append((out, subprocess.Popen(
            ["setarch", "-R", binary, "run", "--shard", f"{shard}/{WORKERS}", "--tier", tier, "--seed", str(seed),
             "--out", out], env=env, stdout=subprocess.PIPE, stderr=subprocess.STDOUT)))
    records = []
    for out, proc in procs:
        output, _ = proc.communicate()
        if proc.returncode != 0 or not os.path.exists(out):
            raise HarnessError(f"graphsim shard failed ({proc.returncode}): {output.decode('utf8', 'replace')[-2000:]}")
        records.append(json.load(open(out)))
    return records


def replay_graph(path):
    binary = os.path.join(SIM_BIN, "graphsim")
    env = {"PATH": "/usr/bin:/bin", "LD_PRELOAD": SHIM, "ZYSIM_HASH_SEED": "1", "RUST_BACKTRACE": "0"}
    proc = subprocess.run(["setarch", "-R", binary, "replay", path], env=env)
    return proc.returncode


# ------------------------------------------------------------------ (b) language level
def classify(status, stderr):
    if status == 0:
        return "accept"
    if status == "timeout":
        return "hang"
    if status == 1 and stderr.strip():
        return "reject"
    return f"crash({status})"


def judge_block(index, seed, tree, tier):
    """One generated program: permutations x keys.  Returns (stats, violation|None)."""
    builtin = os.path.join(tree, "lib", "std", "builtin.zy")
    program, rng = blockgen.generate(seed, index, builtin)
    thorough = tier == "thorough"
    limit = 24 if thorough else 6
    orders, exhaustive = blockgen.permutations_of(program, rng, 24 if program.family == "small" else limit)
    keys = [mix(seed, ENGINE, 500000 + index * 16 + k) for k in range(3 if thorough else 2)]
    directory = os.path.join(tree, "lib", "zyblocks")
    stats = {"processes": 0, "permutations": len(orders), "exhaustive": exhaustive, "family": program.family,
             "expect": program.expect, "graph": hashlib.sha1(json.dumps(program.graph(), sort_keys=True).encode()).hexdigest(),
             "sample": {"family": program.family, "expect": program.expect, "expected_exit": program.exit_code,
                        "note": program.note, "graph": program.graph(),
                        "one_permutation": program.render(orders[-1]).replace(builtin, "<BUILTIN>")},
             "cyclic_types": any(name.startswith("T") and any(d.startswith("T") for d in deps)
                                 for name, _t, _p, deps in program.contributions)}
    observations = []

    def violation(message, order, key, detail):
        return {
            "property": "C08", "engine": "blocksim", "seed": str(seed), "index": index, "tree": tree_fingerprint(),
            "family": program.family, "note": program.note, "expect": program.expect,
            "expected_exit": program.exit_code, "graph": program.graph(), "order": order, "key": str(key),
            "program": program.render(order).replace(builtin, "<BUILTIN>"),
            "reference_program": program.render(orders[0]).replace(builtin, "<BUILTIN>"),
            "message": message, "detail": detail,
        }

    for number, order in enumerate(orders):
        path = os.path.join(directory, f"b{index}_{number}.zy")
        with open(path, "w") as handle:
            handle.write(program.render(order))
        try:
            for key in keys:
                status, out, err = run_under_seam([ZYDECO, "check", path], key, cwd=tree, timeout=20)
                stats["processes"] += 1
                verdict = classify(status, err)
                if verdict not in ("accept", "reject"):
                    return stats, violation(f"check ended with {verdict}: neither success nor a diagnostic", order, key,
                                            err.decode("utf8", "replace")[-800:])
                if verdict != program.expect:
                    return stats, violation(
                        f"check {verdict}s a block whose reference graph says {program.expect} ({program.note})", order,
                        key, err.decode("utf8", "replace")[-800:])
                behaviour = None
                if verdict == "accept" and program.runnable:
                    status, out, err = run_under_seam([ZYDECO, "run", path], key, cwd=tree, timeout=20)
                    stats["processes"] += 1
                    behaviour = (status, out)
                    if program.exit_code is not None and status != program.exit_code:
                        return stats, violation(
                            f"run exits with {status}, the reference graph predicts {program.exit_code}", order, key,
                            err.decode("utf8", "replace")[-800:])
                # diagnostics must not depend on the key (same permutation, same bytes)
                observations.append((number, key, verdict, behaviour, err))
        finally:
            os.unlink(path)
    # behaviour must not depend on the permutation (for programs whose exit code the
    # generator does not predict this is the whole behavioural oracle)
    reference_behaviour = next((b for _n, _k, _v, b, _e in observations if b is not None), None)
    reference_key = next((k for _n, k, _v, b, _e in observations if b is not None), None)
    for number, key, verdict, behaviour, err in observations:
        if behaviour is not None and behaviour != reference_behaviour:
            return stats, violation(
                f"permuting the contributions changes the behaviour: exit {behaviour[0]} here, exit "
                f"{reference_behaviour[0]} for the first permutation", orders[number], key,
                {"stdout": behaviour[1].decode("utf8", "replace")[-300:], "reference_key": str(reference_key)})
    # acceptance and behaviour must not depend on the hash key either (the bytes of a diagnostic
    # are C16's concern: the same generated programs are part of C16's corpus)
    by_order = {}
    for number, key, verdict, behaviour, err in observations:
        first = by_order.setdefault(number, (key, verdict, behaviour))
        if (verdict, behaviour) != first[1:]:
            return stats, violation("the same permutation is accepted / behaves differently under another hash key",
                                    orders[number], key, {"key_a": str(first[0])})
    return stats, None


def replay_block(path):
    payload = json.load(open(path))
    tree = os.path.join(SCRATCH, "blocksim", "replay-tree")
    fresh_dir(tree)
    import shutil
    shutil.copytree(os.path.join(REPO, "lib"), os.path.join(tree, "lib"), symlinks=True)
    builtin = os.path.join(tree, "lib", "std", "builtin.zy")
    file = os.path.join(tree, "lib", "replay.zy")
    with open(file, "w") as handle:
        handle.write(payload["program"].replace("<BUILTIN>", builtin))
    key = int(payload["key"])
    status, out, err = run_under_seam([ZYDECO, "check", file], key, cwd=tree, timeout=20)
    verdict = classify(status, err)
    problem = None
    if verdict != payload["expect"]:
        problem = f"check verdict {verdict}, reference graph says {payload['expect']}"
    elif "permuting the contributions changes the behaviour" in payload["message"]:
        other = os.path.join(tree, "lib", "replay-reference.zy")
        with open(other, "w") as handle:
            handle.write(payload["reference_program"].replace("<BUILTIN>", builtin))
        # the first permutation was observed under its own hash key: a behaviour that depends on
        # the key as well as on the order only reproduces with both keys as recorded
        detail = payload.get("detail") if isinstance(payload.get("detail"), dict) else {}
        a = run_under_seam([ZYDECO, "run", other], int(detail.get("reference_key", key)), cwd=tree, timeout=20)
        b = run_under_seam([ZYDECO, "run", file], key, cwd=tree, timeout=20)
        if (a[0], a[1]) != (b[0], b[1]):
            problem = f"behaviour differs between two permutations: exit {a[0]} vs exit {b[0]}"
    elif verdict == "accept" and payload.get("expected_exit") is not None:
        status, out, err = run_under_seam([ZYDECO, "run", file], key, cwd=tree, timeout=20)
        if status != payload["expected_exit"]:
            problem = f"run exits with {status}, expected {payload['expected_exit']}"
    if problem is None and "under another hash key" in payload["message"]:
        other = int(payload["detail"]["key_a"])
        a = run_under_seam([ZYDECO, "check", file], other, cwd=tree, timeout=20)
        b = run_under_seam([ZYDECO, "check", file], key, cwd=tree, timeout=20)
        if classify(a[0], a[2]) != classify(b[0], b[2]):
            problem = "acceptance differs between the two recorded keys"
    if problem:
        log(f"REPRODUCED property=C08 {problem}")
        return 1
    log("NOT-REPRODUCED property=C08")
    return 0


# ------------------------------------------------------------------ the check
def run_c08(tier, seed):
    started = time.time()
    directory = fresh_dir(os.path.join(SCRATCH, "depsim"))
    records = run_graph_shards(tier, seed, directory)
    graph_wall = time.time() - started

    violations = []
    for record in records:
        for violation in record["violations"]:
            violation["tree"] = tree_fingerprint()
            path = save_replay("C08", "graph", violation)
            if replay_graph_quiet(path) != 1:
                raise HarnessError(f"graphsim violation did not replay: {path}")
            violations.append((path, f"zydeco_utils::graph: {violation['message']} on adds={violation['case']['adds']}"))

    # language level
    tree = fresh_dir(os.path.join(SCRATCH, "blocksim", "tree"))
    import shutil
    shutil.copytree(os.path.join(REPO, "lib"), os.path.join(tree, "lib"), symlinks=True)
    os.makedirs(os.path.join(tree, "lib", "zyblocks"), exist_ok=True)
    programs = 400 if tier == "thorough" else 80
    block_stats = []
    block_violations = []
    with concurrent.futures.ThreadPoolExecutor(max_workers=WORKERS) as pool:
        for stats, violation in pool.map(lambda i: judge_block(i, seed, tree, tier), range(programs)):
            block_stats.append(stats)
            if violation:
                block_violations.append(violation)
    for violation in block_violations[:5]:
        path = save_replay("C08", "block", violation)
        if replay_block(path) != 1:
            raise HarnessError(f"blocksim violation did not replay: {path}")
        violations.append((path, f"block program: {violation['message']} (order {violation['order']})"))

    wall = time.time() - started
    graphs, cyclic = set(), set()
    for record in records:
        graphs.update(record["graphs"])
        cyclic.update(record["cyclic_graphs"])
    evaluations = sum(r["evaluations"] for r in records)
    block_processes = sum(s["processes"] for s in block_stats)
    exhaustive_counts = records[0]["exhaustive_graphs_by_nodes"]
    coverage = {
        "evaluations": evaluations + block_processes,
        "distinct_nontrivial": len(cyclic) + len({s["graph"] for s in block_stats}),
        "rule": "graph level: a case = (sequence of DepGraph::add calls, hash key, release plan) on a fresh thread "
                "whose RandomState comes from the seam; distinct = distinct labelled graphs (edge set + declared set), "
                "non-trivial = has a self-loop or a component of size > 1.  language level: a case = (generated block "
                "program, permutation, hash key) through the zydeco binary; distinct = distinct reference graphs",
        "samples": [s for r in records for s in r["samples"]][:3] + [
            s["sample"] for s in block_stats[:3]],
        "graph_level": {
            "evaluations": evaluations,
            "distinct_labelled_graphs": len(graphs),
            "distinct_cyclic_graphs": len(cyclic),
            "exhaustive_graphs_by_node_count": exhaustive_counts,
            "exhaustive": "every digraph with self-loops on 1..4 labelled nodes x {declared, target-only} sinks",
            "distinct_hash_keys": sum(r["distinct_keys"] for r in records),
            "piecemeal_release_steps": sum(r["piecemeal_steps"] for r in records),
            "cases_with_dependency_target_only_nodes": sum(r["target_only_cases"] for r in records),
            "logical_steps": sum(r["logical_steps"] for r in records),
            "top_steps_that_omitted_a_ready_component(statistic)": sum(r["incomplete_top_steps"] for r in records),
            "distinct_yield_orders": sum(r["distinct_yield_orders"] for r in records),
            "wall_s": round(graph_wall, 1),
        },
        "language_level": {
            "programs": len(block_stats),
            "processes": block_processes,
            "permutations": sum(s["permutations"] for s in block_stats),
            "programs_with_all_permutations": sum(1 for s in block_stats if s["exhaustive"]),
            "expected_reject_programs": sum(1 for s in block_stats if s["expect"] == "reject"),
            "programs_with_recursive_type_groups": sum(1 for s in block_stats if s["cyclic_types"]),
            "families": {f: sum(1 for s in block_stats if s["family"] == f)
                         for f in ("full", "params", "small", "monadic-basis")},
        },
        "fault_kinds": {"hash_key_redraw": evaluations + block_processes},
        "simulated_time": "none (no clock in the code under test); logical steps = top/release steps + processes",
        "runs_per_hour": int((evaluations + block_processes) / max(wall, 1e-6) * 3600),
        "components": {"real": ["zydeco_utils::graph (DepGraph, Kosaraju, SccGraph)", "zydeco binary (resolver, blocks, checker, interpreter)"],
                       "stub": ["getrandom (zysim seam)"]},
    }
    assumptions = [
        "std RandomState keys are drawn once per thread through getrandom; a fresh thread per case redraws them from the seam",
        "permutations at the language level are sampled beyond 4 contributions; the claim is limited to the sampled (graph, permutation, key) triples",
        "top() offering only part of the ready components is recorded as a statistic, not a violation (the property only orders dependencies first)",
    ]
    return coverage, assumptions, violations, [], wall


def replay_graph_quiet(path):
    binary = os.path.join(SIM_BIN, "graphsim")
    env = {"PATH": "/usr/bin:/bin", "LD_PRELOAD": SHIM, "ZYSIM_HASH_SEED": "1", "RUST_BACKTRACE": "0"}
    return subprocess.run(["setarch", "-R", binary, "replay", path], env=env, stdout=subprocess.DEVNULL).returncode
