"""Generator of `begin ... end` block programs that realise a generated reference
dependency graph (used by C08's language level and as extra corpus for C16).

A program is a list of *contributions* (each ending in `that`) plus a body.  The
generator knows, by construction, the reference graph (which contribution refers to
which), whether it contains a cycle through a value or a parameter (=> must be
rejected) and, if accepted, the exit code the program must produce.
"""
import os

from common import Rng, mix

ENGINE = 8


class Program:
    def __init__(self):
        self.contributions = []  # (name, text, is_param, deps:set[str])
        self.body = ""
        self.expect = "accept"  # "accept" | "reject"
        self.exit_code = None  # for accepted runnable programs
        self.runnable = True
        self.note = ""
        self.family = ""
        # text around the permuted block (used when the block under test is nested)
        self.prefix = ""
        self.suffix = ""
        # sequential `do` steps of the block: (position among the contributions, text); they are
        # not contributions and keep their place, contributions move across them
        self.do_steps = []

    def render(self, order):
        lines = ["begin"]
        for position, index in enumerate(order):
            for at, text in self.do_steps:
                if at == position:
                    lines.append("  " + text)
            lines.append("  " + self.contributions[index][1] + " that")
        for at, text in self.do_steps:
            if at >= len(order):
                lines.append("  " + text)
        lines.append("  " + self.body)
        lines.append("end")
        return self.prefix + "\n".join(lines) + self.suffix + "\n"

    def identity_order(self):
        return list(range(len(self.contributions)))

    def valid_order(self, order):
        params = [i for i in order if self.contributions[i][2]]
        return params == sorted(params)

    def graph(self):
        return {name: sorted(deps) for name, _t, _p, deps in self.contributions}


def header(builtin_path):
    return [
        ("H0", f'param ((/core; /representations; /system) : @(import("{builtin_path}")))', True, set()),
        ("H1", "let (/VType; /Thk; /Ret; /Unit) = core", False, {"H0"}),
        ("H2", "let (/Scalar = Int64) = representations/i64", False, {"H0"}),
        ("H3", "let (/process) = system", False, {"H0"}),
    ]


def _project(expr, ty, depth=0):
    """Code that exits with the Int64 found by always taking the first component."""
    if ty == "int":
        return f"! (process/exit) {expr}", None
    if ty[0] == "pair":
        a, b = f"pa{depth}", f"pb{depth}"
        inner, _ = _project(a, ty[1], depth + 1)
        return f"let ({a}, {b}) = {expr} in {inner}", None
    if ty[0] == "data":
        name, ctors = ty[1], ty[2]
        arms = [f"| +K{name}(n{depth}) => ! (process/exit) n{depth}"]
        arms += [f"| +{ctor}(_) => ! (process/exit) 99" for ctor in ctors]
        return f"match {expr} {' '.join(arms)} end", None
    raise AssertionError(ty)


def _value_of(ty, env_literal):
    return ty


def gen_full(rng, builtin_path):
    """A runnable program: header + 2..6 generated contributions over types and values."""
    program = Program()
    program.family = "full"
    program.contributions = header(builtin_path)
    count = rng.range(2, 6)
    kinds = []
    for _ in range(count):
        kinds.append("T" if rng.chance(2, 5) else "V")
    if "V" not in kinds:
        kinds[-1] = "V"
    type_nodes = [i for i, k in enumerate(kinds) if k == "T"]
    # type definitions: arbitrary references among type nodes (cycles allowed)
    type_info = {}
    for i in type_nodes:
        refs = [j for j in type_nodes if rng.chance(1, 3)]
        if rng.chance(1, 6) and i not in refs:
            refs.append(i)  # direct self-recursion
        ctors = [f"L{i}x{j}" for j in refs]
        type_info[i] = (refs, ctors)
    for i in type_nodes:
        refs, ctors = type_info[i]
        arms = [f"| +K{i} : Int64"] + [f"| +{ctor} : T{j}" for ctor, j in zip(ctors, refs)]
        text = f"def T{i} : VType = data {' '.join(arms)} end"
        deps = {f"T{j}" for j in refs} | {"H1", "H2"}
        program.contributions.append((f"T{i}", text, False, deps))
    # local type aliases: referred to only from annotations inside binder patterns
    alias_count = rng.below(3)
    for index in range(alias_count):
        program.contributions.append((f"A{index}", f"let A{index} = Int64", False, {"H2"}))
    # values: a hidden creation order keeps them acyclic
    literal = rng.range(2, 60)
    value_types = {}
    value_nodes = [i for i, k in enumerate(kinds) if k == "V"]
    hidden = list(value_nodes)
    rng.shuffle(hidden)
    created = []
    for i in hidden:
        choice = rng.below(4)
        deps = set()
        if choice == 0 or not created:
            if type_nodes and rng.chance(1, 2):
                t = rng.pick(type_nodes)
                literal += 1
                text = f"let v{i} : T{t} = +K{t}({literal})"
                value_types[i] = ("data", t, type_info[t][1], literal)
                deps = {f"T{t}"}
            elif alias_count and rng.chance(1, 2):
                literal += 1
                alias = rng.below(alias_count)
                text = f"let (v{i} : A{alias}) = {literal}"
                value_types[i] = ("int", literal)
                deps = {f"A{alias}"}
            else:
                literal += 1
                text = f"let v{i} = {literal}"
                value_types[i] = ("int", literal)
        elif choice == 1:
            a = rng.pick(created)
            text = f"let v{i} = v{a}"
            value_types[i] = value_types[a]
            deps = {f"v{a}"}
        elif choice == 2:
            a, b = rng.pick(created), rng.pick(created)
            text = f"let v{i} = (v{a}, v{b})"
            value_types[i] = ("pair", value_types[a], value_types[b])
            deps = {f"v{a}", f"v{b}"}
        else:
            ints = [j for j in created if value_types[j][0] == "int"]
            if ints and type_nodes:
                a, t = rng.pick(ints), rng.pick(type_nodes)
                text = f"let v{i} : T{t} = +K{t}(v{a})"
                value_types[i] = ("data", t, type_info[t][1], value_types[a][1])
                deps = {f"v{a}", f"T{t}"}
            else:
                a = rng.pick(created)
                text = f"let v{i} = (v{a}, v{a})"
                value_types[i] = ("pair", value_types[a], value_types[a])
                deps = {f"v{a}"}
        created.append(i)
        program.contributions.append((f"v{i}", text, False, deps))
    # a contribution whose body is a block nested 2-3 levels deep and whose INNERMOST binding refers
    # to a sibling of the outermost one: the dependency must reach the outer block's graph
    ints_now = [j for j in created if value_types[j][0] == "int"]
    if ints_now and rng.chance(1, 2):
        a = rng.pick(ints_now)
        depth = rng.range(2, 3)
        inner = f"v{a}"
        for level in range(depth, 0, -1):
            inner = f"begin let m{level} : Int64 = {inner} that m{level} end"
        program.contributions.append(("n80", f"let n80 : Int64 = {inner}", False, {f"v{a}", "H2"}))
    # body: project one value down to its first Int64
    target = rng.pick(value_nodes)

    def shape(info):
        if info[0] == "int":
            return "int", info[1]
        if info[0] == "data":
            return ("data", info[1], info[2]), info[3]
        left, code = shape(info[1])
        right, _ = shape(info[2])
        return ("pair", left, right), code

    ty, code = shape(value_types[target])
    program.body, _ = _project(f"v{target}", ty)
    program.exit_code = code
    # sequential steps between which the contributions may sit (a contribution written after a
    # `do` is still a contribution of the block)
    for step in range(rng.below(3)):
        program.do_steps.append((rng.range(1, len(program.contributions)), f"do t{step} <- ret {step};"))
    # optionally inject a cycle through values / a parameter, or a duplicated name
    twist = rng.below(12)
    if twist == 0 and len(value_nodes) >= 1:
        i = 90
        program.contributions.append((f"v{i}", f"def v{i} : Int64 = v{i + 1}", False, {f"v{i + 1}", "H2"}))
        program.contributions.append((f"v{i + 1}", f"def v{i + 1} : Int64 = v{i}", False, {f"v{i}", "H2"}))
        program.expect, program.note = "reject", "two-value cycle"
    elif twist == 1:
        program.contributions.append(("v92", "let v92 = (v92, 1)", False, {"v92"}))
        program.expect, program.note = "reject", "self-referential value"
    elif twist == 2:
        program.contributions.append(("p93", "param (p93 : v94)", True, {"v94"}))
        program.contributions.append(("v94", "let v94 = p93", False, {"p93"}))
        program.expect, program.note = "reject", "cycle through a parameter"
    elif twist == 3 and len(value_nodes) >= 1:
        a = rng.pick(value_nodes)
        program.contributions.append(("v95", f"let v95 = (v{a}, v96)", False, {f"v{a}", "v96"}))
        program.contributions.append(("v96", "let v96 = (v95, v95)", False, {"v95"}))
        program.expect, program.note = "reject", "value cycle hanging off an acyclic value"
    elif twist == 4:
        # one name bound twice in one block: rejected whatever the order
        a = rng.pick(value_nodes)
        program.contributions.append((f"dup{a}", f"let v{a} = {rng.range(2, 90)}", False, set()))
        program.expect, program.note = "reject", "one name contributed twice"
    elif twist == 5:
        # two names bound twice through tuple binders (the diagnostic must not depend on the hash key)
        program.contributions.append(("dupA", "let (da, db) = (1, 2)", False, set()))
        program.contributions.append(("dupB", "let (da, db) = (3, 4)", False, set()))
        program.expect, program.note = "reject", "two names contributed twice through tuple binders"
    elif twist == 6:
        # a cycle through a parameter that closes through a definition
        program.contributions.append(("p97", "param (p97 : T98)", True, {"T98"}))
        program.contributions.append(("T98", "def T98 : VType = T99", False, {"T99", "H1"}))
        program.contributions.append(("T99", "let T99 = p97", False, {"p97"}))
        program.expect, program.note = "reject", "cycle through a parameter closing through definitions"
    elif twist == 7:
        # a recursive type written with a transparent `let` (and a kind annotation) instead of `def`:
        # rejected with a diagnostic (missing seal), never a crash
        program.contributions.append(("R97", "let R97 : VType = data | +KR97 : Int64 | +LR97 : R97 end", False, {"R97", "H1", "H2"}))
        program.expect, program.note = "reject", "recursive type group member written with `let`"
    elif twist == 8:
        program.contributions.append(("R98", "let R98 : VType = data | +KR98 : Int64 | +LR98 : R99 end", False, {"R99", "H1", "H2"}))
        program.contributions.append(("R99", "def R99 : VType = data | +KR99 : R98 end", False, {"R98", "H1"}))
        program.expect, program.note = "reject", "mutually recursive type group with one member written with `let`"
    return program


def gen_params(rng, builtin_path):
    """A nested block with two or three parameters, some of whose annotations refer to
    block-local type aliases.  Only the *inner* contributions are permuted (parameters keep
    their relative order); the behaviour must be the same for every permutation.  Which
    argument a parameter receives is decided by the dependency levels, so the exit code is
    not predicted, only required to be permutation-independent."""
    program = Program()
    program.family = "params"
    head = "\n".join("  " + text + " that" for _n, text, _p, _d in header(builtin_path))
    arguments = [rng.range(2, 40), rng.range(41, 80), rng.range(81, 120)]
    count = rng.range(2, 3)
    names = ["a", "b", "c"][:count]
    aliases = []
    inner = []
    for index, name in enumerate(names):
        if rng.chance(1, 2):
            alias = f"A{index}"
            aliases.append(alias)
            inner.append((alias, f"let {alias} = Int64", False, set()))
            inner.append((name, f"param ({name} : {alias})", True, {alias}))
        else:
            inner.append((name, f"param ({name} : Int64)", True, set()))
    use = rng.pick(names)
    inner.append(("z", f"let z = {use}", False, {use}))
    if rng.chance(1, 2):
        other = rng.pick(names)
        inner.append(("w", f"let (w : Int64) = {other}", False, {other}))
        program.body = "let (r, _) = (z, w) in ! (process/exit) r"
    else:
        program.body = "! (process/exit) z"
    # written order: aliases may sit anywhere, parameters keep a, b, c
    rng.shuffle(inner)
    params = iter(sorted((c for c in inner if c[2]), key=lambda c: c[0]))
    inner = [next(params) if c[2] else c for c in inner]
    program.contributions = inner
    program.prefix = "begin\n" + head + "\n  def ! f = "
    program.suffix = " that\n  ! f " + " ".join(str(a) for a in arguments[:count]) + "\nend"
    program.exit_code = None
    program.note = f"nested parameter block ({count} parameters, {len(aliases)} annotated through a local alias)"
    return program


def gen_monadic_basis(rng, builtin_path):
    """The repository's monadic fixture with the basis (`Monad`, `Algebra`) *contributed* with `that`:
    a definition containing an `@[monadic]` block depends on the contribution that opens the basis,
    although it does not mention it by name."""
    program = Program()
    program.family = "monadic-basis"
    monad = builtin_path.replace("builtin.zy", "control/monad.zy")
    code = rng.range(2, 90)
    program.contributions = [
        ("M0", f'let monadic_basis = @(import("{monad}"))', False, set()),
        ("M1", f'param ((/core; /representations; /system; builtin) : @(import("{builtin_path}")))', True, set()),
        ("M2", "let (/Ret; /Unit) = core", False, {"M1"}),
        ("M3", "let (/process) = system", False, {"M1"}),
        ("M4", "let (= Monad, = Algebra, ()) = monadic_basis builtin", False, {"M0", "M1"}),
        ("M5", "def ! ret_monad : Monad Ret = comatch | .return A value => ret value | .bind A B computation continuation => do value <- ! computation; ! continuation value end", False, {"M4", "M2"}),
        ("M6", "def ! translated = @[monadic] begin ret () end", False, {"M4", "M2"}),
        ("M7", "let (/Scalar = Int64) = representations/i64", False, {"M1"}),
        ("M8", f"let code : Int64 = {code}", False, {"M7"}),
    ]
    program.body = "do _ <- ! translated Ret { ! ret_monad }; ! (process/exit) code"
    program.exit_code = code
    program.note = "monadic basis contributed with `that`"
    return program


def gen_small(rng):
    """Header-less value-only blocks with <= 4 contributions (all permutations are run)."""
    program = Program()
    program.family = "small"
    program.runnable = False
    count = rng.range(2, 4)
    names = [f"s{i}" for i in range(count)]
    edges = {n: set() for n in names}
    hidden = list(names)
    rng.shuffle(hidden)
    cyclic = rng.chance(1, 3)
    for position, name in enumerate(hidden):
        for earlier in hidden[:position]:
            if rng.chance(1, 2):
                edges[name].add(earlier)
    if cyclic:
        a = rng.pick(names)
        b = rng.pick(names)
        edges[a].add(b)
        edges[b].add(a)
    for name in names:
        deps = sorted(edges[name])
        if not deps:
            text = f"let {name} = {rng.range(2, 99)}"
        elif len(deps) == 1:
            text = f"let {name} = ({deps[0]}, 7)"
        else:
            expr = deps[0]
            for dep in deps[1:]:
                expr = f"({expr}, {dep})"
            text = f"let {name} = {expr}"
        program.contributions.append((name, text, False, set(deps)))
    program.body = "ret " + rng.pick(names)
    program.expect = "reject" if _has_cycle(edges) else "accept"
    program.note = "value-only block"
    return program


def _has_cycle(edges):
    state = {}

    def visit(node):
        state[node] = 1
        for nxt in edges.get(node, ()):
            if state.get(nxt) == 1 or (nxt not in state and visit(nxt)):
                return True
        state[node] = 2
        return False

    return any(node not in state and visit(node) for node in list(edges))


def permutations_of(program, rng, limit):
    """All valid permutations if there are at most `limit`, else `limit` sampled ones
    (always including the written order and its reverse where valid)."""
    import itertools
    n = len(program.contributions)
    if n <= 4:
        perms = [list(p) for p in itertools.permutations(range(n)) if program.valid_order(list(p))]
        if len(perms) <= limit:
            return perms, True
    chosen = [program.identity_order()]
    reverse = list(reversed(program.identity_order()))
    params = iter(sorted(i for i in reverse if program.contributions[i][2]))
    reverse = [next(params) if program.contributions[i][2] else i for i in reverse]
    if reverse not in chosen:
        chosen.append(reverse)
    guard = 0
    while len(chosen) < limit and guard < limit * 20:
        guard += 1
        order = program.identity_order()
        rng.shuffle(order)
        params = iter(sorted(i for i in order if program.contributions[i][2]))
        order = [next(params) if program.contributions[i][2] else i for i in order]
        if order not in chosen:
            chosen.append(order)
    return chosen, False


def generate(seed, index, builtin_path):
    rng = Rng(mix(seed, ENGINE, index))
    family = rng.below(11)
    if family < 6:
        return gen_full(rng, builtin_path), rng
    if family < 8:
        return gen_params(rng, builtin_path), rng
    if family < 9:
        return gen_monadic_basis(rng, builtin_path), rng
    return gen_small(rng), rng


def gen_multi_diagnostic(rng, builtin_path):
    """A block with several independent defects (non-exhaustive matches over different data
    types, optionally ill-typed definitions), so that several diagnostics compete for order."""
    program = Program()
    program.family = "multi-diagnostic"
    program.runnable = False
    program.expect = "reject"
    program.contributions = header(builtin_path)
    types = rng.range(2, 3)
    for i in range(types):
        arms = " ".join(f"| +C{i}{letter} : Unit" for letter in "abc")
        program.contributions.append((f"D{i}", f"def D{i} : VType = data {arms} end", False, {"H1"}))
    gaps = rng.range(2, 4)
    for g in range(gaps):
        i, j = rng.below(types), rng.below(types)
        covered = rng.pick(["a", "b", "c"])
        program.contributions.append((
            f"f{g}",
            f"def f{g} : Thk (D{i} -> Ret D{j}) = {{ fn (x : D{i}) => match x | +C{i}{covered}() => ret +C{j}a() end }}",
            False, {f"D{i}", f"D{j}", "H1"}))
    if rng.chance(1, 3):
        program.contributions.append(("bad0", "def bad0 : Int64 = \"text\"", False, {"H2"}))
        program.contributions.append(("bad1", "def bad1 : Int64 = ()", False, {"H2"}))
    if rng.chance(1, 2):
        # inference regions that close with several unconstrained metavariables
        for u in range(rng.range(1, 2)):
            names = " ".join(f"m{u}{letter}" for letter in "abcd"[:rng.range(2, 4)])
            program.contributions.append((f"unc{u}", f"let unc{u} = {{ fn {names} => ret () }}", False, set()))
    program.body = "! (process/exit) 0"
    program.note = f"{gaps} coverage gaps over {types} data types"
    return program


_ROLES = [
    ("exit", "Thk (Int64 -> SystemOS)"),
    ("random_int", "Thk (Thk (Int64 -> SystemOS) -> SystemOS)"),
    ("int64_add", "Thk (Int64 -> Int64 -> SystemOS)"),
    ("int64_sub", "Thk (Int64 -> Int64 -> SystemOS)"),
    ("int64_mul", "Thk (Int64 -> Int64 -> SystemOS)"),
    ("write_int", "Thk (Int64 -> Thk SystemOS -> SystemOS)"),
]


def gen_bad_builtin_signature(rng):
    """A hand-written Builtin signature with several independent mistakes (roles attached to two
    entries, classifiers of the wrong shape): the checker's signature report lists them all."""
    roles = list(_ROLES)
    rng.shuffle(roles)
    entries = []
    for role, classifier in roles[:rng.range(2, 4)]:
        copies = 2 if rng.chance(2, 3) else 1
        for copy in range(copies):
            wrong = classifier if copies == 2 or rng.chance(1, 2) else "Thk SystemOS"
            entries.append((f"{role}_{copy}", role, wrong))
    rng.shuffle(entries)
    names = "; ".join(f"/{name}" for name, _r, _c in entries)
    body = "\n      * ".join(f"(@[builtin({role})] ({name} :: {classifier}))" for name, role, classifier in entries)
    first = entries[0][0]
    return (
        "begin\n  let CType = @(intrinsic(ctype)) in\n  let Thk = @(intrinsic(thk)) in\n  let Int64 = @(intrinsic(i64)) in\n"
        f"  param (\n    ({names}) :\n    exists @[builtin(os)] (SystemOS : CType) .\n        {body}\n  ) in\n"
        f"  ! {first} 0\nend\n"
    )


def gen_monadic(rng, builtin_path, monad_path):
    """The repository's `monadic-ret` fixture with a generated codata/comatch (k destructors) and a
    generated data/match (k constructors) inside the `@[monadic]` block: the elaborated arms appear
    in the emitted IR, so their order must not depend on the process."""
    k = rng.range(2, 5)
    names = [f"d{rng.range(10, 99)}x{i}" for i in range(k)]
    destructors = "\n        ".join(f"| .{name} : Ret Unit" for name in names)
    arms = "\n        ".join(f"| .{name} => ret ()" for name in names)
    chosen = rng.pick(names)
    return f"""begin
  let monadic_basis = @(import("{monad_path}")) that
  param (
    (/core; /system; builtin) :
    @(import("{builtin_path}"))
  ) that
  let (/Ret; /Unit) = core that
  let (/process) = system that
  let (= Monad, = Algebra, ()) = monadic_basis builtin in
  begin
    def ! ret_monad : Monad Ret =
      comatch
      | .return A value => ret value
      | .bind A B computation continuation =>
        do value <- ! computation;
        ! continuation value
      end
    that
    def ! translated = @[monadic] begin
      let Object =
        codata
        {destructors}
        end
      in
      let ! object : Object =
        comatch
        {arms}
        end
      in
      ! object .{chosen}
    end that
    do _ <- ! translated Ret {{ ! ret_monad }};
    ! (process/exit) 0
  end
end
"""


def gen_shared_sink_writers(rng, builtin_path):
    """Several file writers onto one sink (the process's standard output opened again as a file),
    written to in program order and never closed: what reaches the sink, and in which order, must
    be the program order in every process."""
    k = rng.range(2, 4)
    words = ["first", "second", "third", "fourth"][:k]
    opens = ""
    closes = ""
    for index in range(k):
        opens += f'  ! (fs/append_writer) "/dev/stdout" {{ fn c m => ! (process/exit) 9 }} {{ fn w{index} =>\n'
        closes += " }"
    writes = ""
    tail = ""
    for index, word in enumerate(words):
        writes += (f'    do b{index} <- ! (bytes/from_string) "{word} {rng.range(10, 99)}\\n";\n'
                   f'    ! (io/write_all) w{index} b{index} {{ fn c m => ! (process/exit) 8 }} {{\n')
        tail += " }"
    return f"""begin
  param ((/core; /representations; /text; /system) : @(import("{builtin_path}"))) that
  let (/VType; /CType; /Thk; /Ret; /Unit) = core that
  let (/Scalar = String) = representations/string that
  let (/Scalar = Bytes) = representations/bytes that
  let (/bytes) = text that
  let (/Reader; /Writer; /OS; /io; /fs; /process) = system that
{opens}{writes}    ! (process/exit) 0
   {tail}
{closes}
end
"""


_SITES = [
    lambda n: f"nope{n}",
    lambda n: f"{{ ret nope{n} }}",
    lambda n: f"(let x{n} = {n} that x{n})",
    lambda n: f"@[intrinsic(i64)] {n}",
    lambda n: f"({n} : @[intrinsic(nope{n})] _)",
    lambda n: "@[import()] _",
    lambda n: f"@[monadic({n})] {n}",
    lambda n: f"(\"m{n}\" : @[intrinsic(i64)] _)",
    lambda n: f"(9999999999999999999{n} : @[intrinsic(i64)] _)",
    lambda n: f"({n} {n})",
    lambda n: f"(ret {n})",
    lambda n: f"+Mix{n}()",
    lambda n: f"{{ fn p{n} q{n} => ret () }}",
    lambda n: "_",
    lambda n: "(_ : @[intrinsic(i64)] _)",
    lambda n: f"{{ fn .mix{n} => ret {n} }}",
    lambda n: f"@[debug] {n}",
    lambda n: f"{n}",
]


def gen_mixed_sites(rng):
    """A right-nested tuple of 2-5 independent diagnostic sites from every phase (resolution,
    directives, desugaring, typing); half of the time all of one family."""
    count = rng.range(2, 5)
    same = rng.chance(1, 2)
    first = rng.below(len(_SITES))
    families = [first if same or i == 0 else rng.below(len(_SITES)) for i in range(count)]
    text = _SITES[families[-1]](count)
    for index in range(count - 2, -1, -1):
        text = f"({_SITES[families[index]](index + 1)}, {text})"
    return text + "\n"


_DEFINITIONS = [
    lambda n: f"  let dup{n} = {n} that\n  let dup{n} = {n}{n} that\n",
    lambda n: f"  def bad{n} : Int64 = nope{n} that\n",
    lambda n: f"  def ty{n} : Int64 = \"t{n}\" that\n",
    lambda n: f"  def hole{n} : Int64 = _ that\n",
    lambda n: f"  def ! fun{n} (x{n}) : Ret Int64 = ret {n} that\n",
    lambda n: f"  def Data{n} : VType = data | +Ctor{n} : Nope{n} end that\n",
    lambda n: f"  def kind{n} : Int64 Int64 = {n} that\n",
    lambda n: f"  param (p{n} : q{n}) that\n  param (q{n} : p{n}) that\n",
    lambda n: f"  def dbg{n} : Int64 = @[debug] {n} that\n",
    lambda n: f"  def fine{n} : Int64 = {n} that\n",
]


def gen_faulty_definitions(rng, builtin_path):
    """An executable block with 2-5 independent faulty contributions."""
    count = rng.range(2, 5)
    same = rng.chance(1, 2)
    first = rng.below(len(_DEFINITIONS))
    families = [first if same or i == 0 else rng.below(len(_DEFINITIONS)) for i in range(count)]
    body = "".join(_DEFINITIONS[f](i + 1) for i, f in enumerate(families))
    return (f"begin\n  param ((/core; /representations; /system) : @(import(\"{builtin_path}\"))) that\n"
            "  let (/VType; /Thk; /Ret; /Unit) = core that\n  let (/Scalar = Int64) = representations/i64 that\n"
            "  let (/stdio; /process) = system that\n  let code : Int64 = 3 that\n"
            f"{body}  ! (stdio/write_line) \"defs\" {{ ! (process/exit) code }}\nend\n")


def gen_unboxed_tuples(rng, builtin_path):
    """Several let-bound tuples that are only ever projected (the lowering keeps them unboxed and
    issues a slot per variable): slot numbering in `zasm`/`asm` must follow the program."""
    count = rng.range(2, 6)
    lines = [f'param ((/system) : @(import("{builtin_path}"))) in', "let (/process) = system in"]
    names = []
    for i in range(count):
        name = "abcdefgh"[i] + str(rng.range(0, 9))
        width = rng.range(2, 3)
        values = ", ".join(str(rng.range(0, 40)) for _ in range(width))
        parts = ", ".join(f"{name}p{k}" for k in range(width))
        lines.append(f"let {name} = ({values}) in")
        lines.append(f"let ({parts}) = {name} in")
        names.append(f"{name}p{rng.below(width)}")
    lines.append(f"! (process/exit) {rng.pick(names)}")
    return "\n".join(lines) + "\n"


def gen_bad_recursive_types(rng, builtin_path):
    """One group of 2-5 mutually recursive data types of which at least two have an ill-kinded
    constructor payload: which member is blamed must not depend on the process."""
    count = rng.range(2, 5)
    names = [f"T{i}{rng.range(0, 9)}" for i in range(count)]
    bad = set(rng.pick(list(range(count))) for _ in range(count)) | {0, count - 1}
    lines = ["begin", f'  param ((/core; /system) : @(import("{builtin_path}"))) that',
             "  let (/VType; /Thk; /Ret; /Unit) = core that", "  let (/process) = system that"]
    order = list(range(count))
    rng.shuffle(order)
    for i in order:
        successor = names[(i + 1) % count]
        payload = f"Ret {successor}" if i in bad else successor
        lines.append(f"  def {names[i]} : VType = data | +Stop{i} : Unit | +Go{i} : {payload} end that")
    lines.append("  ! (process/exit) 0")
    lines.append("end")
    return "\n".join(lines) + "\n"


def gen_incomplete_matches(rng, builtin_path):
    """Diagnostics that list a *set*: a comatch / match that omits at least two of the declared
    destructors / constructors, or names at least two undeclared ones.  The listed names must come
    out in one order in every process."""
    greek = ["alpha", "beta", "gamma", "delta", "epsilon", "zeta", "eta", "theta", "iota"]
    count = rng.range(3, 8)
    names = greek[:]
    rng.shuffle(names)
    names = [f"{n}{rng.range(0, 9)}" for n in names[:count]]
    kept = rng.range(0, count - 2)
    supplied = names[:]
    rng.shuffle(supplied)
    supplied = supplied[:kept]
    extra = []
    shape = rng.below(4)
    if shape >= 2:
        extra = [f"extra{rng.range(0, 9)}{i}" for i in range(rng.range(2, 4))]
    lines = ["begin", f'  param ((/core; /system) : @(import("{builtin_path}"))) that',
             "  let (/VType; /CType; /Thk; /Ret; /Unit) = core that", "  let (/process) = system that"]
    if shape % 2 == 0:
        lines.append("  let Choice =")
        lines.append("    codata")
        lines += [f"    | .{n} : Ret Unit" for n in names]
        lines.append("    end")
        lines.append("  that")
        arms = [f"  | .{n} => ret ()" for n in supplied + extra]
        rng.shuffle(arms)
        lines.append("  let choice : Thk Choice = {")
        lines.append("  comatch")
        lines += arms
        lines.append("  end } that")
    else:
        lines.append("  let Shape =")
        lines.append("    data")
        lines += [f"    | +{n.capitalize()} : Unit" for n in names]
        lines.append("    end")
        lines.append("  that")
        arms = [f"    | +{n.capitalize()}(_) => ret ()" for n in supplied + extra]
        rng.shuffle(arms)
        lines.append("  def ! inspect (shape : Shape) : Ret Unit =")
        lines.append("    match shape")
        lines += arms
        lines.append("    end")
        lines.append("  that")
    lines.append("  ! (process/exit) 0")
    lines.append("end")
    return "\n".join(lines) + "\n"


def write_block_corpus(tree, seed, count):
    """Extra corpus for C16: one shuffled rendering of `count` generated programs."""
    directory = os.path.join(tree, "lib", "zygen")
    os.makedirs(directory, exist_ok=True)
    builtin = os.path.join(tree, "lib", "std", "builtin.zy")
    written = []
    for index in range(count):
        if index % 2 == 1:
            rng = Rng(mix(seed, ENGINE, 2000 + index))
            program = gen_multi_diagnostic(rng, builtin)
        else:
            program, rng = generate(seed, 1000 + index, builtin)
        orders, _ = permutations_of(program, rng, 3)
        order = orders[-1]
        rel = os.path.join("lib", "zygen", f"block{index}.zy")
        with open(os.path.join(tree, rel), "w") as handle:
            handle.write(program.render(order))
        written.append(rel)
    monad = os.path.join(tree, "lib", "std", "control", "monad.zy")
    for index in range(max(4, count // 6)):
        rng = Rng(mix(seed, ENGINE, 4000 + index))
        rel = os.path.join("lib", "zygen", f"monadic{index}.zy")
        with open(os.path.join(tree, rel), "w") as handle:
            handle.write(gen_monadic(rng, builtin, monad))
        written.append(rel)
    for index in range(max(3, count // 8)):
        rng = Rng(mix(seed, ENGINE, 5000 + index))
        rel = os.path.join("lib", "zygen", f"writers{index}.zy")
        with open(os.path.join(tree, rel), "w") as handle:
            handle.write(gen_shared_sink_writers(rng, builtin))
        written.append(rel)
    for index in range(count):
        rng = Rng(mix(seed, ENGINE, 6000 + index))
        rel = os.path.join("lib", "zygen", f"sites{index}.zy")
        with open(os.path.join(tree, rel), "w") as handle:
            handle.write(gen_mixed_sites(rng))
        written.append(rel)
        rng = Rng(mix(seed, ENGINE, 7000 + index))
        rel = os.path.join("lib", "zygen", f"defs{index}.zy")
        with open(os.path.join(tree, rel), "w") as handle:
            handle.write(gen_faulty_definitions(rng, builtin))
        written.append(rel)
    for index in range(max(6, count // 3)):
        rng = Rng(mix(seed, ENGINE, 8000 + index))
        rel = os.path.join("lib", "zygen", f"unboxed{index}.zy")
        with open(os.path.join(tree, rel), "w") as handle:
            handle.write(gen_unboxed_tuples(rng, builtin))
        written.append(rel)
        rng = Rng(mix(seed, ENGINE, 9000 + index))
        rel = os.path.join("lib", "zygen", f"rectypes{index}.zy")
        with open(os.path.join(tree, rel), "w") as handle:
            handle.write(gen_bad_recursive_types(rng, builtin))
        written.append(rel)
    for index in range(max(8, count // 2)):
        rng = Rng(mix(seed, ENGINE, 10000 + index))
        rel = os.path.join("lib", "zygen", f"arms{index}.zy")
        with open(os.path.join(tree, rel), "w") as handle:
            handle.write(gen_incomplete_matches(rng, builtin))
        written.append(rel)
    for index in range(max(4, count // 4)):
        rng = Rng(mix(seed, ENGINE, 3000 + index))
        rel = os.path.join("lib", "zygen", f"badsig{index}.zy")
        with open(os.path.join(tree, rel), "w") as handle:
            handle.write(gen_bad_builtin_signature(rng))
        written.append(rel)
    return written
