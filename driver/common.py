"""Shared driver pieces: seeds, builds, the entropy seam environment, evidence, findings."""
import hashlib
import json
import os
import re
import shutil
import subprocess
import sys
import time

VERIF = "/verif"
REPO = "/repo"
BUILD = os.path.join(VERIF, "build")
SHIM = os.path.join(BUILD, "libzysim.so")
ZYDECO = os.path.join(VERIF, "target/cli/debug/zydeco")
SIM_BIN = os.path.join(VERIF, "target/sim/debug")
CONC_BIN = os.path.join(VERIF, "target/concsim/debug")
SCRATCH = os.path.join(VERIF, "scratch")
REPLAYS = os.path.join(VERIF, "replays")
EVIDENCE = os.path.join(VERIF, "evidence")
DEFAULT_SEED = 20260925
MASK = (1 << 64) - 1
WORKERS = int(os.environ.get("VERIF_WORKERS", "16"))


class HarnessError(Exception):
    """Anything that is the harness's fault (exit 2), never a property violation."""


# ----------------------------------------------------------------------------- seeds
class Rng:
    """SplitMix64, identical to zysim_common::Rng."""

    def __init__(self, seed):
        self.state = seed & MASK

    def next(self):
        self.state = (self.state + 0x9E3779B97F4A7C15) & MASK
        z = self.state
        z = ((z ^ (z >> 30)) * 0xBF58476D1CE4E5B9) & MASK
        z = ((z ^ (z >> 27)) * 0x94D049BB133111EB) & MASK
        return z ^ (z >> 31)

    def below(self, n):
        return self.next() % n

    def range(self, lo, hi):
        return lo + self.below(hi - lo + 1)

    def chance(self, num, den):
        return self.below(den) < num

    def pick(self, items):
        return items[self.below(len(items))]

    def shuffle(self, items):
        for i in range(len(items) - 1, 0, -1):
            j = self.below(i + 1)
            items[i], items[j] = items[j], items[i]

    def fork(self):
        return Rng(self.next())


def mix(master, engine, index):
    a = Rng((master ^ (engine * 0xA24BAED4963EE407)) & MASK).next()
    return Rng((a ^ (index * 0x9FB21C651E98DF25)) & MASK).next()


def master_seed():
    try:
        return int(os.environ.get("VERIF_SEED", DEFAULT_SEED))
    except ValueError:
        return DEFAULT_SEED


def log(message):
    print(message, flush=True)


# ----------------------------------------------------------------------------- builds
def _run_build(argv, cwd, logname, env=None):
    os.makedirs(BUILD, exist_ok=True)
    full_env = dict(os.environ)
    full_env["CARGO_NET_OFFLINE"] = "true"
    full_env.pop("RUSTFLAGS", None)
    if env:
        full_env.update(env)
    started = time.time()
    with open(os.path.join(BUILD, logname), "wb") as handle:
        proc = subprocess.run(argv, cwd=cwd, stdout=handle, stderr=subprocess.STDOUT, env=full_env)
    if proc.returncode != 0:
        tail = open(os.path.join(BUILD, logname), "rb").read()[-4000:].decode("utf8", "replace")
        raise HarnessError(f"build failed ({' '.join(argv)}):\n{tail}")
    return time.time() - started


def build_shim():
    os.makedirs(BUILD, exist_ok=True)
    source = os.path.join(VERIF, "shim/zysim.c")
    if not os.path.exists(SHIM) or os.path.getmtime(SHIM) < os.path.getmtime(source):
        # build aside and rename: processes that have the old library mapped keep their inode
        _run_build(["gcc", "-O2", "-fPIC", "-shared", "-o", SHIM + ".new", source, "-ldl"], VERIF, "shim.log")
        os.replace(SHIM + ".new", SHIM)


def build_cli():
    """The unmodified `zydeco` binary from /repo's working tree (no hooks)."""
    return _run_build(
        ["cargo", "build", "--manifest-path", f"{REPO}/Cargo.toml", "-p", "zydeco-cli", "--bin", "zydeco",
         "--target-dir", f"{VERIF}/target/cli", "--offline", "--locked"],
        REPO, "cli.log", env={"CARGO_PROFILE_DEV_DEBUG": "0"})


def sync_lockfile(workspace):
    """Harness workspaces resolve third-party crates exactly as /repo does."""
    target = os.path.join(workspace, "Cargo.lock")
    if not os.path.exists(target):
        shutil.copyfile(os.path.join(REPO, "Cargo.lock"), target)


def build_sim(packages=None):
    workspace = os.path.join(VERIF, "sim")
    sync_lockfile(workspace)
    argv = ["cargo", "build", "--offline"]
    for package in packages or []:
        argv += ["-p", package]
    if not packages:
        argv += ["--workspace"]
    return _run_build(argv, workspace, "sim.log")


def build_concsim():
    workspace = os.path.join(VERIF, "concsim")
    sync_lockfile(workspace)
    return _run_build(["cargo", "build", "--offline"], workspace, "concsim.log")


def tree_fingerprint():
    """Fingerprint of /repo's working tree (HEAD + diff), recorded in replay files."""
    try:
        head = subprocess.run(["git", "-C", REPO, "rev-parse", "HEAD"], capture_output=True, text=True).stdout.strip()
        diff = subprocess.run(["git", "-C", REPO, "diff", "HEAD"], capture_output=True).stdout
        return head[:12] + "+" + hashlib.sha1(diff).hexdigest()[:10]
    except Exception:  # pragma: no cover
        return "unknown"


# ----------------------------------------------------------------------------- the seam
def seam_env(key, heap_pad=0, env_pad=0, extra=None):
    """A scrubbed, fixed environment in which the entropy seam is owned by `key`."""
    env = {
        "PATH": "/usr/bin:/bin",
        "HOME": "/nonexistent",
        "LANG": "C",
        "RUST_BACKTRACE": "0",
        "NO_COLOR": "1",
        "LD_PRELOAD": SHIM,
        "ZYSIM_HASH_SEED": str(key & MASK),
    }
    if heap_pad:
        env["ZYSIM_HEAP_PAD"] = str(heap_pad)
    if env_pad:
        env["ZYSIM_ENV_PAD"] = "x" * env_pad
    if extra:
        env.update(extra)
    return env


def seam_params(seed):
    """seed -> (hash key, heap pad, environment padding)."""
    rng = Rng(seed)
    key = rng.next()
    heap_pad = rng.below(64) * 4096 + rng.below(256) * 16
    env_pad = rng.below(3000)
    return key, heap_pad, env_pad


_TID = re.compile(rb"thread '([^']*)' \(\d+\)")


def normalise_output(data):
    """The only normalisation: the OS thread id in Rust's panic banner."""
    return _TID.sub(rb"thread '\1' (<tid>)", data)


def run_under_seam(argv, seed, cwd=REPO, stdin_data=None, timeout=20, extra_env=None):
    key, heap_pad, env_pad = seam_params(seed)
    env = seam_env(key, heap_pad, env_pad, extra_env)
    command = ["setarch", "-R"] + argv
    try:
        proc = subprocess.run(command, cwd=cwd, env=env, input=stdin_data if stdin_data is not None else b"",
                              stdout=subprocess.PIPE, stderr=subprocess.PIPE, timeout=timeout)
    except subprocess.TimeoutExpired:
        return ("timeout", b"", b"")
    return (proc.returncode, normalise_output(proc.stdout), normalise_output(proc.stderr))


# ----------------------------------------------------------------------------- findings
def load_known_findings():
    path = os.path.join(VERIF, "known_findings.json")
    if not os.path.exists(path):
        return []
    with open(path) as handle:
        return json.load(handle).get("findings", [])


# ----------------------------------------------------------------------------- evidence
def write_evidence(property_id, tier, seed, level, coverage, assumptions, wall_s, violations):
    os.makedirs(EVIDENCE, exist_ok=True)
    record = {
        "property_id": property_id,
        "tier": tier,
        "seed": int(seed),
        "level": level,
        "coverage": coverage,
        "assumptions": assumptions,
        "wall_s": round(wall_s, 2),
        "violations": int(violations),
    }
    _self_check(record)
    path = os.path.join(EVIDENCE, f"{property_id}.json")
    with open(path + ".tmp", "w") as handle:
        json.dump(record, handle, indent=1, sort_keys=True)
    os.replace(path + ".tmp", path)
    return path


_INTEGER_KEYS = ("evaluations", "distinct_nontrivial", "states", "transitions", "traces_validated_against_impl",
                 "obligations", "discharged", "programs", "disagreements_checked")


def _self_check(record):
    """The parts of EVIDENCE.schema.json a typo could break (jsonschema is not in the system python)."""
    coverage = record["coverage"]
    for key in ("evaluations", "distinct_nontrivial", "rule", "samples"):
        if key not in coverage:
            raise HarnessError(f"evidence coverage lacks {key}")
    for key in _INTEGER_KEYS:
        if key in coverage and not isinstance(coverage[key], int):
            raise HarnessError(f"evidence coverage.{key} must be an integer")
    if coverage["evaluations"] < 1 or coverage["distinct_nontrivial"] < 2 or not coverage["samples"]:
        raise HarnessError("evidence coverage is trivial (evaluations<1, distinct_nontrivial<2 or no samples)")
    if not isinstance(coverage["samples"], list) or not isinstance(coverage["rule"], str):
        raise HarnessError("evidence coverage.samples must be a list and rule a string")


def save_replay(property_id, name, payload):
    os.makedirs(REPLAYS, exist_ok=True)
    digest = hashlib.sha1(json.dumps(payload, sort_keys=True).encode()).hexdigest()[:10]
    path = os.path.join(REPLAYS, f"{property_id}-{name}-{digest}.json")
    with open(path, "w") as handle:
        json.dump(payload, handle, indent=1, sort_keys=True)
    return path


def finish(property_id, violations, known):
    """Print the interface lines and return the exit code.

    `violations`: list of (replay_path, description) not matched by any known finding.
    `known`: list of descriptions of listed findings that were observed."""
    for description in known:
        log(f"KNOWN-FINDING: property={property_id} {description}")
    for path, description in violations:
        log(f"VIOLATION property={property_id} replay={path}")
        log(f"  {description}")
    return 1 if violations else 0


def fresh_dir(path):
    shutil.rmtree(path, ignore_errors=True)
    os.makedirs(path, exist_ok=True)
    return path


_LOCKS = []


def exclusive(name):
    """Run directories are a pure function of (engine, seed, run index); two concurrent invocations
    of the same check with the same seed would share them, so the second one waits."""
    import fcntl
    base = "/dev/shm" if os.path.isdir("/dev/shm") else SCRATCH
    os.makedirs(os.path.join(base, "zysim-locks"), exist_ok=True)
    handle = open(os.path.join(base, "zysim-locks", f"{name}.lock"), "w")
    fcntl.flock(handle, fcntl.LOCK_EX)
    _LOCKS.append(handle)
