"""E3 `concsim` driver — C17 (shuttle-scheduled tasks over the real session and real salsa)."""
import json
import os
import subprocess
import time

from common import (CONC_BIN, SCRATCH, SHIM, WORKERS, HarnessError, fresh_dir, load_known_findings, log, save_replay,
                    tree_fingerprint)

RUNS = {"quick": 20000, "thorough": 400000}
# the language-server family (E3b): whole cajun server over a scripted transport
LSP_RUNS = {"quick": 3200, "thorough": 120000}


def seam_env():
    return {"PATH": "/usr/bin:/bin", "LD_PRELOAD": SHIM, "ZYSIM_HASH_SEED": "1", "RUST_BACKTRACE": "0",
            "NO_COLOR": "1", "HOME": "/nonexistent"}


def run_shards(tier, seed, runs, directory, events=False, workers=WORKERS, family="conc"):
    binary = os.path.join(CONC_BIN, "concsim")
    procs = []
    for shard in range(workers):
        out = os.path.join(directory, f"{family}-{shard}.json")
        argv = ["setarch", "-R", binary, "run" if family == "conc" else "lsp-run", "--tier", tier, "--seed", str(seed), "--shard", f"{shard}/{workers}",
                "--runs", str(runs), "--out", out]
        if events:
            argv += ["--events", "1"]
        procs.append((out, subprocess.Popen(argv, env=seam_env(), stdout=subprocess.PIPE, stderr=subprocess.STDOUT)))
    records = []
    for out, proc in procs:
        output, _ = proc.communicate()
        if proc.returncode != 0 or not os.path.exists(out):
            raise HarnessError(f"concsim shard failed ({proc.returncode}): {output.decode('utf8', 'replace')[-3000:]}")
        records.append(json.load(open(out)))
    return records


def match_known(finding, violation):
    signature = finding.get("signature", {})
    if signature.get("engine") != "concsim" or finding.get("property") != "C17":
        return False
    if violation.get("class") != signature.get("class"):
        return False
    text = violation.get("message", "")
    return all(fragment in text for fragment in signature.get("message_mentions", []))


def replay(path):
    binary = os.path.join(CONC_BIN, "concsim")
    proc = subprocess.run(["setarch", "-R", binary, "replay", path], env=seam_env())
    return 1 if proc.returncode == 1 else (0 if proc.returncode == 0 else 2)


def replay_quiet(path):
    binary = os.path.join(CONC_BIN, "concsim")
    return subprocess.run(["setarch", "-R", binary, "replay", path], env=seam_env(), stdout=subprocess.DEVNULL,
                          stderr=subprocess.DEVNULL).returncode


def run(tier, seed):
    started = time.time()
    directory = fresh_dir(os.path.join(SCRATCH, "concsim"))
    runs = int(os.environ.get("VERIF_RUNS", RUNS[tier]))
    records = run_shards(tier, seed, runs, directory)
    lsp_runs = int(os.environ.get("VERIF_LSP_RUNS", max(1, runs * LSP_RUNS[tier] // RUNS[tier])))
    lsp_records = run_shards(tier, seed, lsp_runs, directory, family="lsp")
    findings = [f for f in load_known_findings() if f.get("status") == "known"]
    violations, known_lines, known_seen, unminimised = [], [], set(), 0
    for record in records + lsp_records:
        for violation in record["violations"]:
            if violation.get("unminimised"):
                unminimised += 1
                continue
            listed = next((f for f in findings if match_known(f, violation)), None)
            if listed:
                if listed["id"] not in known_seen:
                    known_seen.add(listed["id"])
                    known_lines.append(f"{listed['id']}: {listed['what']}")
                continue
            violation["tree"] = tree_fingerprint()
            path = save_replay("C17", "conc", violation)
            code = replay_quiet(path)
            if code != 1:
                raise HarnessError(f"concsim violation did not replay identically (exit {code}): {path}")
            violations.append((path, f"[{violation['class']}] {violation['message']}"))
    violations = violations[:8]
    wall = time.time() - started
    probes = {}
    for record in records + lsp_records:
        for key, value in record["probes"].items():
            probes[key] = probes.get(key, 0) + value
    workloads = set(w for r in records for w in r["workloads"])
    outcomes = set(o for r in records for o in r["outcomes"])
    executions = sum(r["executions"] for r in records)
    lsp_executions = sum(r["executions"] for r in lsp_records)
    lsp_workloads = set(w for r in lsp_records for w in r["workloads"])
    lsp_outcomes = set(o for r in lsp_records for o in r["outcomes"])
    coverage = {
        "evaluations": executions + lsp_executions,
        "distinct_nontrivial": len(outcomes) + len(lsp_outcomes),
        "rule": "one evaluation = one complete shuttle execution (one seeded schedule of one seeded workload: an editing owner, "
                "1-3 analysing readers on snapshots, 0-2 identifier allocators, 0-2 check_resolved tasks over 3-5 file slots) "
                "in its own forked process; distinct = hash of (abstract workload, per-analysis outcome sequence), i.e. "
                "distinct observable interleavings; every execution has at least two tasks.  The language-server family adds "
                "executions of the whole cajun server (real tower-lsp Server + LspService, real Cajun handlers, tokio locks, "
                "real session and salsa) fed 2-6 bursts of 1-6 LSP messages through an in-memory transport with seeded short "
                "reads/writes, its blocking analysis jobs on shuttle threads (hook H3); distinct = hash of (abstract script, "
                "per-answer outcome string)",
        "samples": [s for r in records for s in r["samples"]][:2] + [s for r in lsp_records for s in r["samples"]][:1],
        "session_family": {"executions": executions, "distinct_workloads": len(workloads), "distinct_observable_interleavings": len(outcomes)},
        "language_server_family": {"executions": lsp_executions, "distinct_scripts": len(lsp_workloads),
                                   "distinct_observable_outcomes": len(lsp_outcomes),
                                   "lsp_frames_judged": sum(r["logical_steps"] for r in lsp_records)},
        "distinct_workloads": len(workloads),
        "distinct_observable_interleavings": len(outcomes),
        "reach_probes": dict(sorted(probes.items())),
        "fault_kinds_fired": {
            "reader_cancelled_by_writer": probes.get("analysis:cancelled", 0) + probes.get("check_resolved:cancelled", 0),
            "edit_landing_inside_running_analysis(completed anyway)": probes.get("completed_although_overtaken_by_an_edit", 0),
            "shard_lock_contention": probes.get("shard_lock_contended", 0) + probes.get("lsp:shard_lock_contended", 0),
            "lsp_short_reads": probes.get("lsp:short_reads", 0),
            "lsp_short_writes": probes.get("lsp:short_writes", 0),
            "lsp_answer_empty_because_cancelled_or_superseded": probes.get("lsp:racing_answer_empty(cancelled_or_superseded)", 0),
        },
        "logical_events": sum(r["logical_steps"] for r in records),
        "violations_beyond_minimisation_cap": unminimised,
        "known_findings_observed": sorted(known_seen),
        "simulated_time": "scheduler steps only (no clock in the code under test); step budget 1e8 per execution = bounded liveness",
        "runs_per_hour": int(executions / max(wall, 1e-6) * 3600),
        "components": {
            "real": ["zydeco_session::CompilerSession and everything below it", "salsa 0.26.2 query engine, revisions, cancellation (shuttle feature)",
                     "dashmap table logic", "cajun SessionState, AnalysisTask::run, ProjectState::load_from_session + diagnostics (hook H2)",
                     "KeySpaceId::fresh via hook H1",
                     "language-server family: cajun::Cajun with all its handlers, tower-lsp 0.20 Server/LspService/codec, tokio sync primitives"],
            "stub": ["OS threads -> shuttle coroutines", "parking/futex -> shuttle", "dashmap shard-lock acquisition -> yield-spin",
                     "session family: cajun's refresh/commit_analysis control flow is mirrored by the workload; language-server family: nothing of cajun is mirrored, "
                     "stdin/stdout -> scripted in-memory transport, tokio blocking pool -> shuttle threads (hook H3), no tokio runtime (work-done progress, which needs timers, is not advertised)",
                     "getrandom (zysim seam)"],
        },
    }
    assumptions = [
        "shuttle treats every atomic ordering as SeqCst (weak-memory bugs are invisible); preemption happens at salsa's/DashMap's/hook synchronisation operations",
        "during the concurrent phase the owner's disk writes target only slots that are certainly in the input table (DESIGN 3.3)",
        "third-party adaptations: vendored salsa (shuttle 0.9, cancellation unwinds marked benign), shuttle-engine (benign-aware panicking), dashmap (yield-spin lock)",
    ]
    stuck = [name for name in ("analysis:cancelled", "analysis:completed", "completed_although_overtaken_by_an_edit",
                               "lsp:racing_answer_empty(cancelled_or_superseded)", "lsp:quiescent_answers_exact",
                               "lsp:racing_answer_from_another_combination", "lsp:request_answers_non_null")
             if probes.get(name, 0) == 0]
    if stuck and tier == "thorough":
        raise HarnessError(f"reach probes stuck at zero: {stuck}")
    return coverage, assumptions, violations, known_lines, wall
