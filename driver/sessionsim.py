"""E2 `sessionsim` driver — C15 (fresh-session oracle) and C09 (reference graph model)."""
import json
import os
import subprocess
import time

from common import (SCRATCH, SHIM, SIM_BIN, WORKERS, HarnessError, fresh_dir, load_known_findings, log, save_replay,
                    tree_fingerprint)

RUNS = {("C15", "quick"): 40000, ("C15", "thorough"): 1200000, ("C09", "quick"): 40000, ("C09", "thorough"): 1200000}


def seam_env():
    return {"PATH": "/usr/bin:/bin", "LD_PRELOAD": SHIM, "ZYSIM_HASH_SEED": "1", "RUST_BACKTRACE": "0",
            "NO_COLOR": "1", "HOME": "/nonexistent"}


ENUMERATE = {"quick": (512, 4096), "thorough": (512, 65536)}


def run_shards(focus, tier, seed, runs, directory, events=False, workers=WORKERS):
    binary = os.path.join(SIM_BIN, "sessionsim")
    procs = []
    for shard in range(workers):
        out = os.path.join(directory, f"session-{focus}-{shard}.json")
        argv = ["setarch", "-R", binary, "run", "--focus", focus, "--tier", tier, "--seed", str(seed), "--shard",
                f"{shard}/{workers}", "--runs", str(runs), "--out", out]
        if events:
            argv += ["--events", "1"]
        if focus == "C09":
            argv += ["--enumerate3", str(ENUMERATE[tier][0]), "--enumerate4", str(ENUMERATE[tier][1])]
        procs.append((out, subprocess.Popen(argv, env=seam_env(), stdout=subprocess.PIPE, stderr=subprocess.STDOUT)))
    records = []
    for out, proc in procs:
        output, _ = proc.communicate()
        if proc.returncode != 0 or not os.path.exists(out):
            raise HarnessError(f"sessionsim shard failed ({proc.returncode}): {output.decode('utf8', 'replace')[-3000:]}")
        records.append(json.load(open(out)))
    return records


def match_known(finding, violation):
    """A listed finding matches a *minimised* violation by property, class and the shape
    of the minimised history (operation kinds in order), nothing looser."""
    signature = finding.get("signature", {})
    if signature.get("engine") != "sessionsim" or finding.get("property") != violation.get("property"):
        return False
    if "class_prefix" in signature and not violation.get("class", "").startswith(signature["class_prefix"]):
        return False
    kinds = [label.split(":")[0] if not label.startswith("fault:") else ":".join(label.split(":")[:2])
             for label in violation.get("trace", [])]
    required = signature.get("history_contains_in_order", [])
    position = 0
    for kind in kinds:
        if position < len(required) and kind == required[position]:
            position += 1
    if position < len(required):
        return False
    forbidden = set(signature.get("history_must_not_contain", []))
    if forbidden & set(kinds):
        return False
    text = json.dumps(violation.get("violation", {}))
    return all(fragment in text for fragment in signature.get("violation_mentions", []))


def replay(path):
    binary = os.path.join(SIM_BIN, "sessionsim")
    proc = subprocess.run(["setarch", "-R", binary, "replay", path], env=seam_env())
    return 1 if proc.returncode == 1 else (0 if proc.returncode == 0 else 2)


def replay_quiet(path):
    binary = os.path.join(SIM_BIN, "sessionsim")
    return subprocess.run(["setarch", "-R", binary, "replay", path], env=seam_env(), stdout=subprocess.DEVNULL,
                          stderr=subprocess.DEVNULL).returncode


def run(property_id, tier, seed):
    started = time.time()
    directory = fresh_dir(os.path.join(SCRATCH, f"sessionsim-{property_id}"))
    runs = int(os.environ.get("VERIF_RUNS", RUNS[(property_id, tier)]))
    records = run_shards(property_id, tier, seed, runs, directory)
    findings = [f for f in load_known_findings() if f.get("status") == "known"]
    violations, known_lines, known_seen = [], [], set()
    unminimised = 0
    for record in records:
        for violation in record["violations"]:
            if violation.get("property") != property_id:
                continue
            if violation.get("unminimised"):
                unminimised += 1
                continue
            listed = next((f for f in findings if match_known(f, violation)), None)
            if listed:
                if listed["id"] not in known_seen:
                    known_seen.add(listed["id"])
                    known_lines.append(f"{listed['id']}: {listed['what']}")
                continue
            violation["tree"] = tree_fingerprint()
            path = save_replay(property_id, "session", violation)
            code = replay_quiet(path)
            if code != 1:
                raise HarnessError(f"sessionsim violation did not replay identically (exit {code}): {path}")
            detail = violation["violation"]
            violations.append((path, f"{detail.get('message')} | history: {' ; '.join(violation.get('trace', []))} | "
                                     f"expected {detail.get('expected')} | actual {detail.get('actual')}"))
    violations = violations[:8]
    wall = time.time() - started

    def total(key):
        return sum(r[key] for r in records)

    def merged(key):
        out = {}
        for r in records:
            for k, v in r[key].items():
                out[k] = out.get(k, 0) + v
        return dict(sorted(out.items()))

    histories = set(h for r in records for h in r["histories"])
    nontrivial = set(h for r in records for h in r["nontrivial_histories"])
    states = set(h for r in records for h in r["states"])
    inconclusive = [i for r in records for i in r["inconclusive"]]
    probes = merged("probes")
    coverage = {
        "evaluations": total("runs"),
        "distinct_nontrivial": len(nontrivial),
        "rule": "one evaluation = one seeded history (3-40 operations over <= 11 interdependent file slots) executed in its "
                "own forked process against the real CompilerSession and a real scratch directory; distinct = hash of the "
                "abstracted history (operation kind, slot, content variant / query); non-trivial = at least one edit or "
                "disk fault strictly between two queries",
        "samples": [s for r in records for s in r["samples"]][:4],
        "distinct_histories": len(histories),
        "distinct_model_states": len(states),
        "operations_executed": total("ops_executed"),
        "operations_skipped_by_precondition": total("ops_skipped_by_precondition"),
        "queries_compared_with_fresh_session": total("queries"),
        "fresh_sessions_built": total("fresh_sessions"),
        "reference_graph_judgements": total("graph_judgements"),
        "enumerated_graph_histories": total("enumerated_graph_runs"),
        "enumerated_graph_family": ("every edge set incl. self-imports over {root.zy, a.zy, a.zyi} (512 graphs) and "
                                    + ("every" if tier == "thorough" else "an even stride of 4096 of the 65536")
                                    + " edge sets over {root.zy, a.zy, b.zy, a.zyi}; a.zyi adds the signature edge; one "
                                    "fault-free history each (write files, graph of every file, analyze root)") if property_id == "C09" else "n/a",
        "inlining_equivalence_judgements": total("inline_judgements"),
        "generative_copy_judgements": total("generative_judgements"),
        "generative_copy_judgements_expecting_rejection": total("generative_rejections"),
        "operations_by_kind": merged("by_kind"),
        "fault_kinds_fired": merged("faults_fired"),
        "reach_probes": probes,
        "answer_kinds": merged("answer_kinds"),
        "configurations": "even run indices fault-free (exact comparison), odd run indices fault-injecting (OS error text of load errors masked)",
        "inconclusive_runs": inconclusive,
        "violations_beyond_minimisation_cap": unminimised,
        "known_findings_observed": sorted(known_seen),
        "simulated_time": "logical steps only (the session has no clock): operations_executed",
        "runs_per_hour": int(total("runs") / max(wall, 1e-6) * 3600),
        "components": {
            "real": ["zydeco_session::CompilerSession, loader, graph, salsa 0.26 (normal build)", "statics, surface, dynamics interpreter",
                     "std::fs over a real tmpfs directory"],
            "stub": ["getrandom (zysim seam); one forked process per run"],
        },
    }
    assumptions = [
        "operations that make the disk and the session's view diverge are generated only on slots whose view is certain (DESIGN 3.1); symlinks are static",
        "key spaces of arena ids are masked (ordinal of first appearance per line); slots within a key space are compared exactly",
        "a panic that a fresh session reproduces identically is a front-end totality matter (C10) and is counted, not judged",
    ]
    stuck = [name for name in ("memo_evicted_then_rematerialised", "answer_changed_after_edits",
                               "companion_appeared_after_being_probed_absent", "overlay_reverted_to_disk",
                               "handle_query_with_stale_handle") if probes.get(name, 0) == 0]
    if stuck and property_id == "C15":
        raise HarnessError(f"reach probes stuck at zero: {stuck}")
    if inconclusive:
        raise HarnessError(f"{len(inconclusive)} run(s) timed out once and finished on re-execution: wall-clock safety net too tight")
    return coverage, assumptions, violations, known_lines, wall
