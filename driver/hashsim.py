"""E5 `hashsim` — C16 (and the language level of C08).

The nondeterminism C16 quantifies over is hidden in the process: per-process SipHash
keys (std RandomState, obtained through libc `getrandom`) and the address-space layout.
The simulation owns both: every `zydeco` process runs under `setarch -R` with the
`zysim` entropy seam preloaded, so one seed -> (hash key, heap pad, environment padding)
is one exactly repeatable execution.  The oracle is byte equality of (stdout, stderr,
exit status[, formatted file]) with the run under the reference seed.
"""
import concurrent.futures
import hashlib
import json
import os
import re
import shutil
import time

from common import (REPO, SCRATCH, WORKERS, ZYDECO, HarnessError, Rng, fresh_dir, load_known_findings, log, mix,
                    run_under_seam, save_replay, seam_params, tree_fingerprint)

ENGINE = 16
COMMANDS = ["check", "run", "fmt-check", "fmt", "build-zir", "build-zasm", "build-asm", "build-llvm"]
RUN_TIMEOUT = {"quick": 6, "thorough": 12}


def corpus_files(tree):
    files = []
    for top in ("lib", "docs"):
        for root, _dirs, names in os.walk(os.path.join(tree, top)):
            for name in names:
                if name.endswith((".zy", ".zydeco")):
                    files.append(os.path.relpath(os.path.join(root, name), tree))
    return sorted(files)


def mirror_tree(target):
    """Scratch copy of lib/ and docs/ from the *current* working tree of /repo."""
    fresh_dir(target)
    for top in ("lib", "docs"):
        shutil.copytree(os.path.join(REPO, top), os.path.join(target, top), symlinks=True)
    return target


# ------------------------------------------------------------------ multi-error mutants
_TOKEN = re.compile(r"[A-Za-z_][A-Za-z0-9_'-]*|\d+|[^\sA-Za-z0-9_]")


def make_mutant(text, rng):
    """Token deletion/duplication/renaming at 1-3 places so that several diagnostics
    compete for order."""
    lines = text.split("\n")
    candidates = [i for i, line in enumerate(lines) if line.strip() and not line.strip().startswith("--")]
    if not candidates:
        return None
    description = []
    for _ in range(rng.range(1, 3)):
        index = rng.pick(candidates)
        tokens = list(_TOKEN.finditer(lines[index]))
        if not tokens:
            continue
        token = rng.pick(tokens)
        kind = rng.below(4)
        line = lines[index]
        if kind == 0:
            lines[index] = line[:token.start()] + line[token.end():]
            description.append(f"delete {token.group()!r}@{index + 1}")
        elif kind == 1:
            lines[index] = line[:token.end()] + " " + token.group() + line[token.end():]
            description.append(f"duplicate {token.group()!r}@{index + 1}")
        elif kind == 2 and re.match(r"[A-Za-z_]", token.group()):
            lines[index] = line[:token.start()] + token.group() + "_zz" + line[token.end():]
            description.append(f"rename {token.group()!r}@{index + 1}")
        else:
            other = rng.pick(candidates)
            lines[index], lines[other] = lines[other], lines[index]
            description.append(f"swap lines {index + 1},{other + 1}")
    return "\n".join(lines), "; ".join(description)


def add_mutants(tree, files, count, seed):
    rng = Rng(mix(seed, ENGINE, 7777))
    eligible = [f for f in files if "/tests/" in f or "/examples/" in f or f.startswith("docs/")]
    mutants = {}
    attempts = 0
    while len(mutants) < count and attempts < count * 4 and eligible:
        attempts += 1
        source = rng.pick(eligible)
        text = open(os.path.join(tree, source), encoding="utf8", errors="replace").read()
        made = make_mutant(text, rng)
        if not made:
            continue
        mutated, description = made
        base, ext = os.path.splitext(source)
        name = f"{base}.zymut{len(mutants)}{ext}"
        with open(os.path.join(tree, name), "w", encoding="utf8") as handle:
            handle.write(mutated)
        mutants[name] = {"from": source, "mutation": description}
    return mutants


# ------------------------------------------------------------------ one observation
def command_argv(command, path):
    if command == "check":
        return [ZYDECO, "check", path]
    if command == "run":
        return [ZYDECO, "run", path]
    if command == "fmt-check":
        return [ZYDECO, "fmt", "--check", path]
    if command == "fmt":
        return [ZYDECO, "fmt", path]
    if command.startswith("build-"):
        return [ZYDECO, "build", "-t", command.split("-", 1)[1], path]
    raise HarnessError(f"unknown command {command}")


_GROUPS = {}


def observe_group(tree, name, command, seed):
    """`zydeco fmt [--check] f1 f2 ...` on private copies of a group of files."""
    members = _GROUPS[name]
    directory = os.path.join(tree, "zygroups", f"{name[1:]}-{command}-{seed & 0xffffff:x}")
    shutil.rmtree(directory, ignore_errors=True)
    os.makedirs(directory)
    copies = []
    for index, member in enumerate(members):
        copy = os.path.join(directory, f"m{index}{os.path.splitext(member)[1]}")
        if member == "@broken":
            text = "let x = in\n"
        else:
            text = open(os.path.join(tree, member), encoding="utf8", errors="replace").read()
            if index % 3 != 2:
                # make the file need reformatting (spacing only; the program is unchanged)
                text = text.replace(" = ", "  =  ").replace(" that", "   that") + "\n\n\n"
        with open(copy, "w", encoding="utf8") as handle:
            handle.write(text)
        copies.append(copy)
    argv = [ZYDECO, "fmt"] + (["--check"] if command == "fmt-check-many" else []) + [os.path.basename(c) for c in copies]
    try:
        status, out, err = run_under_seam(argv, seed, cwd=directory, timeout=300)
        contents = b"\0".join(open(c, "rb").read() for c in copies)
    finally:
        shutil.rmtree(directory, ignore_errors=True)
    return (status, out, err, contents)


def observe(tree, relpath, command, seed, timeout, patient=False):
    if relpath.startswith("@group"):
        return observe_group(tree, relpath, command, seed)
    """One fresh process; returns (status, stdout, stderr, extra).

    Only `run` may legitimately not terminate, so only `run` under the reference seed gets the
    short timeout (a program that exceeds it is excluded).  Everything else - other commands,
    and `run` under another seed once the reference run finished - gets a generous one, so that
    machine load can never look like a difference."""
    if command != "run" or patient:
        timeout = max(timeout * 20, 180)
    path = os.path.join(tree, relpath)
    extra = b""
    if command == "fmt":
        # format a private copy sitting next to the original (relative imports keep working)
        copy = f"{path}.fmt{seed & 0xffff:x}{os.path.splitext(path)[1]}"
        shutil.copyfile(path, copy)
        try:
            status, out, err = run_under_seam(command_argv(command, copy), seed, cwd=tree, timeout=timeout)
            extra = open(copy, "rb").read()
            out, err = out.replace(copy.encode(), b"<copy>"), err.replace(copy.encode(), b"<copy>")
        finally:
            os.unlink(copy)
        return (status, out, err, extra)
    status, out, err = run_under_seam(command_argv(command, path), seed, cwd=tree, timeout=timeout)
    return (status, out, err, extra)


def first_difference(a, b):
    names = ["status", "stdout", "stderr", "file"]
    for name, left, right in zip(names, a, b):
        if left == right:
            continue
        if name == "status":
            return {"stream": name, "expected": str(left), "actual": str(right)}
        left_lines, right_lines = left.split(b"\n"), right.split(b"\n")
        for number, (x, y) in enumerate(zip(left_lines, right_lines)):
            if x != y:
                return {"stream": name, "line": number + 1, "expected": x.decode("utf8", "replace")[:300],
                        "actual": y.decode("utf8", "replace")[:300]}
        return {"stream": name, "line": min(len(left_lines), len(right_lines)) + 1,
                "expected": f"<{len(left_lines)} lines>", "actual": f"<{len(right_lines)} lines>"}
    return None


def differing_lines(a, b):
    """All lines that are not common to both outputs (multiset difference), per stream."""
    result = []
    for left, right in zip(a[1:], b[1:]):
        left_lines, right_lines = left.split(b"\n"), right.split(b"\n")
        from collections import Counter
        cl, cr = Counter(left_lines), Counter(right_lines)
        result += [l.decode("utf8", "replace") for l in ((cl - cr) + (cr - cl)).elements()]
        if not ((cl - cr) or (cr - cl)) and left_lines != right_lines:
            # pure reordering: report the lines whose position differs
            result += [x.decode("utf8", "replace") for x, y in zip(left_lines, right_lines) if x != y]
    return result


# ------------------------------------------------------------------ known findings
def match_known(finding, command, difference_lines, status_pair):
    signature = finding.get("signature", {})
    if signature.get("engine") != "hashsim":
        return False
    if command not in signature.get("commands", []):
        return False
    if status_pair[0] != status_pair[1]:
        return False
    pattern = re.compile(signature["differing_lines_match"])
    return bool(difference_lines) and all(pattern.search(line) for line in difference_lines)


# ------------------------------------------------------------------ minimisation
def shrink_program(tree, relpath, command, seed_a, seed_b, timeout, budget=60):
    """Delta debugging on lines while *some* difference between the two seeds persists."""
    path = os.path.join(tree, relpath)
    original = open(path, encoding="utf8", errors="replace").read()
    lines = original.split("\n")
    base, ext = os.path.splitext(relpath)
    probe_rel = f"{base}.zymin{ext}"
    probe = os.path.join(tree, probe_rel)

    def differs(candidate):
        with open(probe, "w", encoding="utf8") as handle:
            handle.write("\n".join(candidate))
        a = observe(tree, probe_rel, command, seed_a, timeout, patient=True)
        b = observe(tree, probe_rel, command, seed_b, timeout, patient=True)
        return a != b and a[0] != "timeout" and b[0] != "timeout"

    chunk = max(1, len(lines) // 2)
    spent = 0
    try:
        while chunk >= 1 and spent < budget:
            index = 0
            reduced = False
            while index < len(lines) and spent < budget:
                candidate = lines[:index] + lines[index + chunk:]
                spent += 1
                if candidate and differs(candidate):
                    lines = candidate
                    reduced = True
                else:
                    index += chunk
            if not reduced:
                chunk //= 2
        return "\n".join(lines)
    finally:
        if os.path.exists(probe):
            os.unlink(probe)


# ------------------------------------------------------------------ the check
def run_c16(tier, seed):
    started = time.time()
    thorough = tier == "thorough"
    seeds_per_case = 12 if thorough else 4
    mutant_count = 400 if thorough else 60
    timeout = RUN_TIMEOUT[tier]
    tree = mirror_tree(os.path.join(SCRATCH, "hashsim", "tree"))
    files = corpus_files(tree)
    mutants = add_mutants(tree, files, mutant_count, seed)
    from blockgen import write_block_corpus
    blocks = write_block_corpus(tree, seed, 80 if thorough else 24)
    cases = [(f, "corpus") for f in files] + [(f, "mutant") for f in sorted(mutants)] + [(f, "block") for f in blocks]
    reference_seed = mix(seed, ENGINE, 0)
    other_seeds = [mix(seed, ENGINE, k) for k in range(1, seeds_per_case)]

    jobs = []
    for relpath, family in cases:
        text = open(os.path.join(tree, relpath), encoding="utf8", errors="replace").read()
        for command in COMMANDS:
            if command == "run" and re.search(r"\brandom\b", text):
                continue  # asks the host for entropy: legitimately seed-dependent
            jobs.append((relpath, family, command))

    # `fmt` with SEVERAL files in one invocation: which files are listed / rewritten, and in
    # which order, must not depend on the process either
    group_rng = Rng(mix(seed, ENGINE, 4242))
    candidates = [f for f in files if "/tests/" in f or f.startswith("docs/spell")]
    groups = []
    for index in range(24 if thorough else 8):
        members = [group_rng.pick(candidates) for _ in range(group_rng.range(3, 6))]
        members = list(dict.fromkeys(members))
        if group_rng.chance(1, 2):
            members.insert(group_rng.range(1, len(members)), "@broken")  # an unparsable file among the others
        groups.append(members)
    for index, members in enumerate(groups):
        _GROUPS[f"@group{index}"] = members
        jobs.append((f"@group{index}", "group", "fmt-check-many"))
        jobs.append((f"@group{index}", "group", "fmt-many"))

    stats = {
        "processes": 0, "pairs": 0, "nonempty_output_pairs": 0, "excluded_run_timeouts": [],
        "status_histogram": {}, "by_command": {}, "distinct_outputs": set(),
    }
    differences = []

    def judge(job):
        relpath, family, command = job
        began = time.time()
        reference = observe(tree, relpath, command, reference_seed, timeout)
        elapsed = time.time() - began
        processes = 1
        if reference[0] == "timeout":
            return (job, "excluded", processes, None, reference)
        found = None
        # quick tier: programs that take long (they import the whole standard library) get
        # one other seed instead of three; thorough runs every seed on everything
        seeds_here = other_seeds[:1] if (not thorough and elapsed > 0.35) else other_seeds
        for other in seeds_here:
            outcome = observe(tree, relpath, command, other, timeout, patient=True)
            processes += 1
            if outcome != reference:
                found = (other, outcome)
                break
        return (job, "ok" if found is None else "diff", processes, found, reference)

    with concurrent.futures.ThreadPoolExecutor(max_workers=WORKERS) as pool:
        for job, verdict, processes, found, reference in pool.map(judge, jobs):
            relpath, family, command = job
            stats["processes"] += processes
            stats["pairs"] += 1
            by = stats["by_command"].setdefault(command, {"pairs": 0, "nonempty": 0, "accepted": 0, "rejected": 0})
            by["pairs"] += 1
            if verdict == "excluded":
                stats["excluded_run_timeouts"].append(f"{command} {relpath}")
                continue
            if reference[1] or reference[2] or reference[3]:
                stats["nonempty_output_pairs"] += 1
                by["nonempty"] += 1
            by["accepted" if reference[0] == 0 else "rejected"] += 1
            stats["status_histogram"][str(reference[0])] = stats["status_histogram"].get(str(reference[0]), 0) + 1
            stats["distinct_outputs"].add(hashlib.sha1(b"\0".join([str(reference[0]).encode(), *reference[1:]])).digest())
            if verdict == "diff":
                differences.append((job, found, reference))

    # ---- triage
    findings = load_known_findings()
    known_lines, violations = [], []
    known_seen = set()
    for (relpath, family, command), (other, outcome), reference in differences:
        # exact replay first: both seeds once more
        again_ref = observe(tree, relpath, command, reference_seed, timeout, patient=True)
        again_other = observe(tree, relpath, command, other, timeout, patient=True)
        if again_ref != reference or again_other != outcome:
            raise HarnessError(f"non-reproducible difference for {command} {relpath}: the seam does not own this run")
        lines = differing_lines(reference, outcome)
        listed = next((f for f in findings if f.get("status") == "known" and f.get("property") == "C16"
                       and match_known(f, command, lines, (reference[0], outcome[0]))), None)
        if listed:
            if listed["id"] not in known_seen:
                known_seen.add(listed["id"])
                known_lines.append(f"{listed['id']}: {listed['what']} (e.g. `{command}` on {relpath})")
            continue
        if len(violations) >= 5:
            continue
        if family == "group":
            minimal = json.dumps([[m, "" if m == "@broken" else open(os.path.join(tree, m), encoding="utf8", errors="replace").read()]
                                  for m in _GROUPS[relpath]])
        else:
            minimal = shrink_program(tree, relpath, command, reference_seed, other, timeout) \
                if family != "corpus" or len(violations) < 2 else open(os.path.join(tree, relpath)).read()
        payload = {
            "property": "C16", "engine": "hashsim", "seed": str(seed), "tree": tree_fingerprint(),
            "command": command, "file": relpath, "family": family,
            "directory": os.path.dirname(relpath) if family != "group" else "lib",
            "extension": os.path.splitext(relpath)[1] if family != "group" else ".zy",
            "program": minimal, "seed_reference": str(reference_seed), "seed_other": str(other),
            "seam_reference": list(seam_params(reference_seed)), "seam_other": list(seam_params(other)),
            "first_difference": first_difference(reference, outcome),
            "differing_lines": lines[:40],
        }
        path = save_replay("C16", command, payload)
        code, _ = replay_c16(path, quiet=True, tree=tree)
        if code != 1:
            # the minimised program no longer differs: fall back to the full program
            if family != "group":
                payload["program"] = open(os.path.join(tree, relpath), encoding="utf8", errors="replace").read()
                path = save_replay("C16", command, payload)
        violations.append((path, f"`zydeco {command}` on {relpath}: {payload['first_difference']}"))

    wall = time.time() - started
    sample_jobs = [jobs[i] for i in range(0, len(jobs), max(1, len(jobs) // 6))][:6]
    coverage = {
        "evaluations": stats["processes"],
        "distinct_nontrivial": len(stats["distinct_outputs"]),
        "rule": "one evaluation = one fresh `zydeco` process under (hash key, heap pad, env pad) drawn from one seed; "
                "a case = (program, command) compared byte-for-byte against the reference seed; distinct_nontrivial "
                "counts distinct (status, stdout, stderr, formatted file) observations among reference runs",
        "samples": [{"program": j[0] if j[1] != "group" else list(_GROUPS[j[0]]), "family": j[1],
                     "command": " ".join(command_argv(j[2], j[0])[1:]) if j[1] != "group" else f"fmt{' --check' if j[2] == 'fmt-check-many' else ''} <files>",
                     "seeds": [str(reference_seed)] + [str(s) for s in other_seeds[:2]]} for j in sample_jobs],
        "program_command_pairs": stats["pairs"],
        "pairs_with_nonempty_output": stats["nonempty_output_pairs"],
        "program_counts": {"corpus": len(files), "mutants": len(mutants), "generated_blocks": len(blocks)},
        "mutant_samples": [dict(file=k, **v) for k, v in list(sorted(mutants.items()))[:3]],
        "seeds_per_case": seeds_per_case,
        "distinct_hash_keys": seeds_per_case,
        "by_command": stats["by_command"],
        "exit_status_histogram": stats["status_histogram"],
        "excluded_from_run_nonterminating_or_slow": stats["excluded_run_timeouts"],
        "differences_found": len(differences),
        "known_findings_observed": sorted(known_seen),
        "fault_kinds": {"hash_key_redraw": stats["processes"], "heap_offset_shift": stats["processes"],
                        "environment_size_shift": stats["processes"]},
        "simulated_time": "none: the CLI has no clock, timer or thread; logical steps = processes",
        "runs_per_hour": int(stats["processes"] / max(wall, 1e-6) * 3600),
        "components": {"real": ["zydeco binary built from /repo working tree (no hooks)", "kernel, libc, std"],
                       "stub": ["getrandom/getentropy (zysim seam)", "ASLR disabled via setarch -R"]},
    }
    assumptions = [
        "per-process nondeterminism reaches the CLI only through getrandom (hash keys) and address layout; the CLI has no threads, clocks or sockets (DESIGN 1.8)",
        "programs whose own text mentions `random` are excluded from `run` (they ask the host for entropy)",
        "programs that do not finish under the reference seed within the timeout are excluded from that command and listed",
    ]
    return coverage, assumptions, violations, known_lines, wall


def replay_c16(path, quiet=False, tree=None):
    payload = json.load(open(path))
    if tree is None:
        tree = mirror_tree(os.path.join(SCRATCH, "hashsim", "replay-tree"))
    if payload.get("family") == "group":
        members = []
        os.makedirs(os.path.join(tree, "lib", "zyreplaygroup"), exist_ok=True)
        for index, (name, text) in enumerate(json.loads(payload["program"])):
            if name == "@broken":
                members.append("@broken")
                continue
            rel = os.path.join("lib", "zyreplaygroup", f"g{index}{os.path.splitext(name)[1]}")
            with open(os.path.join(tree, rel), "w", encoding="utf8") as handle:
                handle.write(text)
            members.append(rel)
        _GROUPS["@groupreplay"] = members
        a = observe_group(tree, "@groupreplay", payload["command"], int(payload["seed_reference"]))
        b = observe_group(tree, "@groupreplay", payload["command"], int(payload["seed_other"]))
        if a != b:
            if not quiet:
                log(f"REPRODUCED property=C16 `{payload['command']}` differs between seeds: {first_difference(a, b)}")
            return 1, first_difference(a, b)
        if not quiet:
            log("NOT-REPRODUCED property=C16")
        return 0, None
    relpath = os.path.join(payload["directory"], f"zyreplay{payload['extension']}")
    with open(os.path.join(tree, relpath), "w", encoding="utf8") as handle:
        handle.write(payload["program"])
    try:
        a = observe(tree, relpath, payload["command"], int(payload["seed_reference"]), 20, patient=True)
        b = observe(tree, relpath, payload["command"], int(payload["seed_other"]), 20, patient=True)
    finally:
        os.unlink(os.path.join(tree, relpath))
    if a != b:
        if not quiet:
            log(f"REPRODUCED property=C16 `{payload['command']}` differs between seeds: {first_difference(a, b)}")
        return 1, first_difference(a, b)
    if not quiet:
        log("NOT-REPRODUCED property=C16")
    return 0, None
