#!/usr/bin/env python3
"""Driver: ./check setup | <property> quick|thorough | replay <file> | determinism [engine]"""
import os
import sys
import time
import traceback

sys.path.insert(0, os.path.dirname(os.path.abspath(__file__)))

import common
from common import HarnessError, finish, log, master_seed, write_evidence


def tier_of(argv, position):
    tier = argv[position] if len(argv) > position else os.environ.get("VERIF_TIER", "quick")
    if tier not in ("quick", "thorough"):
        raise HarnessError(f"unknown tier {tier!r}")
    return tier


def setup():
    common.build_shim()
    log(f"cli build: {common.build_cli():.0f}s")
    log(f"sim build: {common.build_sim():.0f}s")
    if os.path.exists(os.path.join(common.VERIF, "concsim", "Cargo.toml")):
        log(f"concsim build: {common.build_concsim():.0f}s")
    return 0


def check_c16(tier, seed):
    import hashsim
    common.build_shim()
    common.build_cli()
    coverage, assumptions, violations, known, wall = hashsim.run_c16(tier, seed)
    write_evidence("C16", tier, seed, "exploration", coverage, assumptions, wall, len(violations))
    return finish("C16", violations, known)


def check_c08(tier, seed):
    import depsim
    common.build_shim()
    common.build_cli()
    common.build_sim(["graphsim"])
    coverage, assumptions, violations, known, wall = depsim.run_c08(tier, seed)
    write_evidence("C08", tier, seed, "exploration", coverage, assumptions, wall, len(violations))
    return finish("C08", violations, known)


def check_session(property_id, tier, seed):
    import sessionsim
    common.build_shim()
    common.build_sim(["sessionsim"])
    coverage, assumptions, violations, known, wall = sessionsim.run(property_id, tier, seed)
    write_evidence(property_id, tier, seed, "exploration", coverage, assumptions, wall, len(violations))
    return finish(property_id, violations, known)


def check_c17(tier, seed):
    import concsim
    common.build_shim()
    common.build_concsim()
    coverage, assumptions, violations, known, wall = concsim.run(tier, seed)
    write_evidence("C17", tier, seed, "exploration", coverage, assumptions, wall, len(violations))
    return finish("C17", violations, known)


def check_c06(tier, seed):
    import hostsim
    common.build_shim()
    common.build_sim(["hostsim"])
    coverage, assumptions, violations, known, wall = hostsim.run(tier, seed)
    write_evidence("C06", tier, seed, "fault_enumeration", coverage, assumptions, wall, len(violations))
    return finish("C06", violations, known)


def replay(path):
    import json
    payload = json.load(open(path))
    engine = payload.get("engine")
    common.build_shim()
    if engine == "hashsim":
        import hashsim
        common.build_cli()
        return hashsim.replay_c16(path)[0]
    if engine == "graphsim":
        import depsim
        common.build_sim(["graphsim"])
        return depsim.replay_graph(path)
    if engine == "blocksim":
        import depsim
        common.build_cli()
        return depsim.replay_block(path)
    if engine == "sessionsim":
        import sessionsim
        common.build_sim(["sessionsim"])
        return sessionsim.replay(path)
    if engine == "concsim":
        import concsim
        common.build_concsim()
        return concsim.replay(path)
    if engine == "hostsim":
        import hostsim
        common.build_sim(["hostsim"])
        return hostsim.replay(path)
    raise HarnessError(f"replay file {path} names unknown engine {engine!r}")


def main(argv):
    if len(argv) < 2:
        log(__doc__)
        return 2
    seed = master_seed()
    command = argv[1]
    log(f"VERIF_SEED={seed}")
    if command == "setup":
        return setup()
    if command == "replay":
        return replay(argv[2])
    if command == "determinism":
        common.exclusive(f"determinism-{seed}")
        import determinism
        return determinism.main(argv[2:], seed)
    tier = tier_of(argv, 2)
    common.exclusive(f"{command}-{seed}")
    if command == "C16":
        return check_c16(tier, seed)
    if command == "C08":
        return check_c08(tier, seed)
    if command in ("C15", "C09"):
        return check_session(command, tier, seed)
    if command == "C17":
        return check_c17(tier, seed)
    if command == "C06":
        return check_c06(tier, seed)
    raise HarnessError(f"no check for {command!r}")


if __name__ == "__main__":
    try:
        sys.exit(main(sys.argv))
    except HarnessError as error:
        log(f"HARNESS-ERROR: {error}")
        sys.exit(2)
    except Exception:  # noqa: BLE001 - any driver bug is a harness error, never a violation
        traceback.print_exc()
        log("HARNESS-ERROR: unexpected exception in driver")
        sys.exit(2)
