"""`./check determinism [engine ...]` — prove that one seed is one exactly repeatable execution.

For every engine: the same master seed is executed twice at two worker counts (16 and 5);
the per-run event logs (operation results, answer hashes, task statuses, sequence numbers,
continuation traces) must be byte-identical across all four executions.  For the process-level
engine (hashsim) the same seam seed is run twice per (program, command).  Exit 0 = identical,
exit 2 = a divergence (a harness defect: nothing a check reports could then be replayed)."""
import concurrent.futures
import hashlib
import json
import os
import time

import common
from common import HarnessError, SCRATCH, fresh_dir, log

REPORT = os.path.join(common.VERIF, "reports", "determinism.json")


def digest(value):
    return hashlib.sha1(json.dumps(value, sort_keys=True).encode()).hexdigest()


def session_logs(focus, seed, runs, workers, tag):
    import sessionsim
    directory = fresh_dir(os.path.join(SCRATCH, f"det-session-{tag}"))
    records = sessionsim.run_shards(focus, "quick", seed, runs, directory, events=True, workers=workers)
    logs = {}
    for record in records:
        for entry in record["event_logs"]:
            logs[entry["index"]] = digest([entry["events"], entry["violations"]])
    return logs


def conc_logs(seed, runs, workers, tag, family="conc"):
    import concsim
    directory = fresh_dir(os.path.join(SCRATCH, f"det-{family}-{tag}"))
    records = concsim.run_shards("quick", seed, runs, directory, events=True, workers=workers, family=family)
    logs = {}
    for record in records:
        for entry in record["event_logs"]:
            # the oracle's answers embed nothing time- or pid-dependent: compare everything
            logs[(entry["index"], entry["schedule"])] = digest([entry["events"], entry["failure"]])
    return {f"{k[0]}/{k[1]}": v for k, v in logs.items()}


def host_logs(seed, scripts, multi, workers, tag):
    import hostsim
    directory = fresh_dir(os.path.join(SCRATCH, f"det-host-{tag}"))
    records = hostsim.run_shards("quick", seed, scripts, multi, directory, workers=workers)
    merged = {"evaluations": sum(r["evaluations"] for r in records),
              "distinct": sorted(set(d for r in records for d in r["distinct"])),
              "violations": sorted(json.dumps(v, sort_keys=True) for r in records for v in r["violations"])}
    for key in ("fault_kinds_fired", "continuations_taken"):
        total = {}
        for r in records:
            for k, v in r[key].items():
                total[k] = total.get(k, 0) + v
        merged[key] = total
    return {"all": digest(merged)}


def graph_logs(seed, tag):
    import depsim
    directory = fresh_dir(os.path.join(SCRATCH, f"det-graph-{tag}"))
    records = depsim.run_graph_shards("quick", seed, directory)
    merged = {"evaluations": sum(r["evaluations"] for r in records),
              "graphs": sorted(set(g for r in records for g in r["graphs"])),
              "orders": sum(r["distinct_yield_orders"] for r in records),
              "steps": sum(r["logical_steps"] for r in records),
              "piecemeal": sum(r["piecemeal_steps"] for r in records)}
    return {"all": digest(merged)}


def hash_logs(seed, tag):
    import hashsim
    tree = hashsim.mirror_tree(os.path.join(SCRATCH, "det-hash", "tree"))
    files = hashsim.corpus_files(tree)[::6]
    jobs = [(f, c) for f in files for c in ("check", "build-asm", "fmt-check")]

    def one(job):
        relpath, command = job
        outcome = hashsim.observe(tree, relpath, command, seed + 17, 10, patient=True)
        return f"{command} {relpath}", hashlib.sha1(repr(outcome).encode()).hexdigest()

    with concurrent.futures.ThreadPoolExecutor(max_workers=common.WORKERS) as pool:
        return dict(pool.map(one, jobs))


def compare(name, variants):
    """variants: list of (label, dict)."""
    reference_label, reference = variants[0]
    divergences = []
    for label, logs in variants[1:]:
        if set(logs) != set(reference):
            divergences.append(f"{name}: {label} covers different runs than {reference_label}")
            continue
        for key in reference:
            if logs[key] != reference[key]:
                divergences.append(f"{name}: run {key} differs between {reference_label} and {label}")
                if len(divergences) > 5:
                    break
    return divergences


def main(argv, seed):
    engines = argv or ["sessionsim", "concsim", "hostsim", "graphsim", "hashsim"]
    common.build_shim()
    started = time.time()
    report = {"seed": seed, "engines": {}, "divergences": []}
    if "sessionsim" in engines:
        common.build_sim(["sessionsim"])
        for focus in ("C15", "C09"):
            variants = [(f"{w} workers, execution {e}", session_logs(focus, seed, 400, w, f"{focus}-{w}-{e}"))
                        for w in (16, 5) for e in (1, 2)]
            report["engines"][f"sessionsim/{focus}"] = {"runs_compared": len(variants[0][1]), "executions": 4}
            report["divergences"] += compare(f"sessionsim/{focus}", variants)
    if "concsim" in engines:
        common.build_concsim()
        variants = [(f"{w} workers, execution {e}", conc_logs(seed, 300, w, f"{w}-{e}")) for w in (16, 5) for e in (1, 2)]
        report["engines"]["concsim"] = {"executions_compared": len(variants[0][1]), "executions": 4}
        report["divergences"] += compare("concsim", variants)
        # the language-server family: every frame the server wrote, every judgement, in order
        variants = [(f"{w} workers, execution {e}", conc_logs(seed, 400, w, f"{w}-{e}", family="lsp")) for w in (16, 5) for e in (1, 2)]
        report["engines"]["concsim/lsp"] = {"executions_compared": len(variants[0][1]), "executions": 4}
        report["divergences"] += compare("concsim/lsp", variants)
    if "hostsim" in engines:
        common.build_sim(["hostsim"])
        variants = [(f"{w} workers, execution {e}", host_logs(seed, 16, 300, w, f"{w}-{e}")) for w in (16, 5) for e in (1, 2)]
        report["engines"]["hostsim"] = {"executions": 4}
        report["divergences"] += compare("hostsim", variants)
    if "graphsim" in engines:
        common.build_sim(["graphsim"])
        variants = [(f"execution {e}", graph_logs(seed, str(e))) for e in (1, 2)]
        report["engines"]["graphsim"] = {"executions": 2}
        report["divergences"] += compare("graphsim", variants)
    if "hashsim" in engines:
        common.build_cli()
        variants = [(f"execution {e}", hash_logs(seed, str(e))) for e in (1, 2)]
        report["engines"]["hashsim"] = {"program_command_pairs": len(variants[0][1]), "executions": 2}
        report["divergences"] += compare("hashsim", variants)
    report["wall_s"] = round(time.time() - started, 1)
    os.makedirs(os.path.dirname(REPORT), exist_ok=True)
    with open(REPORT, "w") as handle:
        json.dump(report, handle, indent=1, sort_keys=True)
    for line in report["divergences"]:
        log(f"DIVERGENCE {line}")
    log(f"determinism: {json.dumps(report['engines'])} divergences={len(report['divergences'])} ({report['wall_s']} s)")
    if report["divergences"]:
        raise HarnessError("the simulators are not deterministic")
    return 0
