// zysim: LD_PRELOAD seam that owns the process's entropy source.
//
// std's RandomState (HashMap/HashSet keys), the `getrandom` crate and therefore
// `rand::rng()` all obtain entropy through the libc symbol `getrandom`, which std
// looks up weakly precisely so that it can be interposed.  With ZYSIM_HASH_SEED set
// (or after zysim_reseed()) the bytes come from a SplitMix64 stream, so hash-map
// iteration order becomes an exact function of one integer.  With the variable unset
// the shim forwards to the kernel and the process behaves as shipped.
//
// Also interposed: getentropy (same stream) and an optional deterministic heap pad.
#define _GNU_SOURCE
#include <errno.h>
#include <fcntl.h>
#include <stdint.h>
#include <stdio.h>
#include <sys/stat.h>
#include <stdlib.h>
#include <string.h>
#include <sys/syscall.h>
#include <sys/types.h>
#include <unistd.h>

static int zysim_active = 0;
static uint64_t zysim_state = 0;
static uint64_t zysim_draws = 0;

static uint64_t splitmix64(void) {
  uint64_t z = (zysim_state += 0x9E3779B97F4A7C15ULL);
  z = (z ^ (z >> 30)) * 0xBF58476D1CE4E5B9ULL;
  z = (z ^ (z >> 27)) * 0x94D049BB133111EBULL;
  return z ^ (z >> 31);
}

void zysim_reseed(uint64_t seed) {
  zysim_state = seed;
  zysim_active = 1;
  zysim_draws = 0;
}

void zysim_disable(void) { zysim_active = 0; }

uint64_t zysim_draw_count(void) { return zysim_draws; }

int zysim_is_active(void) { return zysim_active; }

static void fill(void *buf, size_t len) {
  unsigned char *p = (unsigned char *)buf;
  while (len > 0) {
    uint64_t v = splitmix64();
    size_t n = len < 8 ? len : 8;
    memcpy(p, &v, n);
    p += n;
    len -= n;
  }
  zysim_draws++;
}

__attribute__((constructor)) static void zysim_init(void) {
  const char *seed = getenv("ZYSIM_HASH_SEED");
  if (seed && *seed) {
    zysim_reseed(strtoull(seed, NULL, 0));
  }
  const char *pad = getenv("ZYSIM_HEAP_PAD");
  if (pad && *pad) {
    unsigned long n = strtoul(pad, NULL, 0);
    if (n > 0 && n < (1UL << 26)) {
      void *r = sbrk((intptr_t)n);
      (void)r;
    }
  }
}

ssize_t getrandom(void *buf, size_t len, unsigned int flags) {
  if (zysim_active) {
    fill(buf, len);
    return (ssize_t)len;
  }
  return syscall(SYS_getrandom, buf, len, flags);
}

int getentropy(void *buf, size_t len) {
  if (len > 256) {
    errno = EIO;
    return -1;
  }
  if (zysim_active) {
    fill(buf, len);
    return 0;
  }
  size_t off = 0;
  while (off < len) {
    long r = syscall(SYS_getrandom, (char *)buf + off, len - off, 0);
    if (r < 0) {
      if (errno == EINTR) continue;
      return -1;
    }
    off += (size_t)r;
  }
  return 0;
}

/* ------------------------------------------------------------------------------------------
 * File-fault plan (armed only by hostsim, in its forked child, around the interpreter run).
 *
 * Faults sit at *file offsets* of named regular files: a read or write that starts at the
 * offset fails (EINTR once, a hard errno once, or a hard errno for ever); a transfer that
 * would cross the offset is cut short in front of it.  Whatever the host's buffer sizes, the
 * operation that needs the byte at the offset is the one that meets the fault.  With an empty
 * plan `read` and `write` are plain system calls.
 * ---------------------------------------------------------------------------------------- */
#define ZYSIM_MAX_FILE_FAULTS 64
struct zysim_file_fault {
  char path[320];
  int direction; /* 0 = read, 1 = write */
  long offset;
  int kind; /* 0 = EINTR once, 1 = hard once, 2 = hard for ever */
  int error;
  int fired;
};
static struct zysim_file_fault zysim_file_faults[ZYSIM_MAX_FILE_FAULTS];
static int zysim_file_fault_count = 0;

void zysim_file_plan_clear(void) { zysim_file_fault_count = 0; }

int zysim_file_plan_add(const char *path, int direction, long offset, int kind, int error) {
  if (zysim_file_fault_count >= ZYSIM_MAX_FILE_FAULTS) return -1;
  struct zysim_file_fault *f = &zysim_file_faults[zysim_file_fault_count];
  strncpy(f->path, path, sizeof f->path - 1);
  f->path[sizeof f->path - 1] = 0;
  f->direction = direction;
  f->offset = offset;
  f->kind = kind;
  f->error = error;
  f->fired = 0;
  return zysim_file_fault_count++;
}

int zysim_file_plan_fired(int index) {
  return (index >= 0 && index < zysim_file_fault_count) ? zysim_file_faults[index].fired : -1;
}

/* Returns 1 and sets errno if the transfer must fail now; otherwise may shrink *count. */
static int zysim_file_fault_at(int fd, int direction, size_t *count) {
  char link[64], path[320];
  snprintf(link, sizeof link, "/proc/self/fd/%d", fd);
  ssize_t length = syscall(SYS_readlink, link, path, sizeof path - 1);
  if (length <= 0) return 0;
  path[length] = 0;
  long offset = -1;
  for (int i = 0; i < zysim_file_fault_count; i++) {
    struct zysim_file_fault *f = &zysim_file_faults[i];
    if (f->direction != direction || strcmp(f->path, path) != 0) continue;
    if (offset < 0) {
      int flags = (int)syscall(SYS_fcntl, fd, F_GETFL);
      if (direction == 1 && flags >= 0 && (flags & O_APPEND)) {
        struct stat st;
        if (fstat(fd, &st) != 0) return 0;
        offset = (long)st.st_size;
      } else {
        offset = (long)syscall(SYS_lseek, fd, 0L, SEEK_CUR);
      }
      if (offset < 0) return 0;
    }
    if (f->offset == offset) {
      if (f->kind == 2 || !f->fired) {
        f->fired++;
        errno = f->kind == 0 ? EINTR : f->error;
        return 1;
      }
    } else if (f->offset > offset && (f->kind == 2 || !f->fired)) {
      size_t room = (size_t)(f->offset - offset);
      if (*count > room) *count = room;
    }
  }
  return 0;
}

ssize_t read(int fd, void *buf, size_t count) {
  if (zysim_file_fault_count > 0 && count > 0 && zysim_file_fault_at(fd, 0, &count)) return -1;
  return syscall(SYS_read, fd, buf, count);
}

ssize_t write(int fd, const void *buf, size_t count) {
  if (zysim_file_fault_count > 0 && count > 0 && zysim_file_fault_at(fd, 1, &count)) return -1;
  return syscall(SYS_write, fd, buf, count);
}
