// zysim: LD_PRELOAD seam that owns the process's entropy source.
//
// std's RandomState (HashMap/HashSet keys), the `getrandom` crate and therefore
// `rand::rng()` all obtain entropy through the libc symbol `getrandom`, which std
// looks up weakly precisely so that it can be interposed.  With ZYSIM_HASH_SEED set
// (or after zysim_reseed()) the bytes come from a SplitMix64 stream, so hash-map
// iteration order becomes an exact function of one integer.  With the variable unset
// the shim forwards to the kernel and the process behaves as shipped.
//
// Also interposed: getentropy (same stream) and an optional deterministic heap pad.
#define _GNU_SOURCE
#include <errno.h>
#include <stdint.h>
#include <stdlib.h>
#include <string.h>
#include <sys/syscall.h>
#include <sys/types.h>
#include <unistd.h>

static int zysim_active = 0;
static uint64_t zysim_state = 0;
static uint64_t zysim_draws = 0;

static uint64_t splitmix64(void) {
  uint64_t z = (zysim_state += 0x9E3779B97F4A7C15ULL);
  z = (z ^ (z >> 30)) * 0xBF58476D1CE4E5B9ULL;
  z = (z ^ (z >> 27)) * 0x94D049BB133111EBULL;
  return z ^ (z >> 31);
}

void zysim_reseed(uint64_t seed) {
  zysim_state = seed;
  zysim_active = 1;
  zysim_draws = 0;
}

void zysim_disable(void) { zysim_active = 0; }

uint64_t zysim_draw_count(void) { return zysim_draws; }

int zysim_is_active(void) { return zysim_active; }

static void fill(void *buf, size_t len) {
  unsigned char *p = (unsigned char *)buf;
  while (len > 0) {
    uint64_t v = splitmix64();
    size_t n = len < 8 ? len : 8;
    memcpy(p, &v, n);
    p += n;
    len -= n;
  }
  zysim_draws++;
}

__attribute__((constructor)) static void zysim_init(void) {
  const char *seed = getenv("ZYSIM_HASH_SEED");
  if (seed && *seed) {
    zysim_reseed(strtoull(seed, NULL, 0));
  }
  const char *pad = getenv("ZYSIM_HEAP_PAD");
  if (pad && *pad) {
    unsigned long n = strtoul(pad, NULL, 0);
    if (n > 0 && n < (1UL << 26)) {
      void *r = sbrk((intptr_t)n);
      (void)r;
    }
  }
}

ssize_t getrandom(void *buf, size_t len, unsigned int flags) {
  if (zysim_active) {
    fill(buf, len);
    return (ssize_t)len;
  }
  return syscall(SYS_getrandom, buf, len, flags);
}

int getentropy(void *buf, size_t len) {
  if (len > 256) {
    errno = EIO;
    return -1;
  }
  if (zysim_active) {
    fill(buf, len);
    return 0;
  }
  size_t off = 0;
  while (off < len) {
    long r = syscall(SYS_getrandom, (char *)buf + off, len - off, 0);
    if (r < 0) {
      if (errno == EINTR) continue;
      return -1;
    }
    off += (size_t)r;
  }
  return 0;
}
